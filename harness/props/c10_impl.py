"""C10 (validated part): the front end of the REAL code in /repo is total.

Explored on valid barectf 2 / barectf 3 base documents (c09_docs.py):
  corpus   - hand-minimised reproducers of every known deviation class + special documents
             (empty file, non-mapping roots, deep nesting, anchors / merge keys, alias bombs,
             Python-specific tags, YAML 1.1 booleans as keys ...)
  struct   - every single structural fault: node (kind, path) x {delete, retype to each kind,
             out-of-range number, unknown / self-referencing alias or inclusion, duplicated or
             spliced sub-tree, non-string key}
  multi    - random 2-4 fault mutants
  raw      - byte-level corruption of the YAML text
  cli      - the command line on a sample across outcome classes
Each case runs configuration_from_file, effective_configuration_file and
configuration_file_major_version in a worker process with a timeout.  Outcome classes:
ok / cpe (_ConfigurationParseError with a context path) / other (by call site) / timeout.
Every accepted document is generated and every generated C file compiled.
"""
import copy
import os
import re
import shutil
import subprocess
import sys
import time

if __name__ == '__main__':
    sys.path.insert(0, os.path.dirname(os.path.dirname(os.path.abspath(__file__))))

from common import REPO as common_REPO
from props import c09_docs as D
from props import c10_forms as F
from props.c09_docs import MAIN, tget, tset, tdel, rename_key

WORKERS = 14
CASE_TIMEOUT = 10.0
BARECTF_CLI = '/venv/bin/barectf'

RETYPES = [
    ('null', None), ('bool', True), ('int', 7), ('negint', -3), ('hugeint', 2 ** 70), ('float', 2.5),
    ('intfloat', 8.0), ('str', 'zzz'), ('emptystr', ''), ('emptylist', []), ('scalarlist', [1, 'a']),
    ('emptymap', {}), ('onekeymap', {'k': 1}),
]
RANGE_VALUES = [-1, 0, 65, 2 ** 63, 2 ** 64 + 1]
NONSTRING_KEYS = [('int', 7), ('bool', True), ('null', None), ('float', 2.5),
                  ('complex-seq', 'ZZCOMPLEXKEYZZ'), ('complex-map', 'ZZCOMPLEXMAPZZ')]
IDENT = re.compile(r'^[A-Za-z_][A-Za-z0-9_]*$')
C_TYPE_OK = re.compile(r'^((unsigned|signed) )?(char|short|int|long)( int)?$|^(unsigned|signed)$|^u?int(_least|_fast)?(8|16|32|64)_t$|'
                       r'^(size_t|u?intmax_t|u?intptr_t|clock_t|time_t)$')

# functions of config_parse_v3.py that run AFTER the final schema validation (a crash there is a
# hole of the schema, not a pre-expansion stage trusting a shape)
V3_POST = re.compile(r'^(_create_|_validate_|_alignment_prop|_feature_ft|_clk_type|_try_|_total_struct_ft_node_members|'
                     r'_set_trace_byte_order|_normalize_props|normalize_byte_order_prop|_byte_order_from_node|'
                     r'_trace_type_props|_props)')
YAML_STAGE = ('_yaml_load', 'mapping_ctor', 'config_ctor', '_yaml_load_path')


# ------------------------------------------------------------------ fault enumeration

_KEYDICT = None


def key_dictionary():
    """property name -> string constants (const / enum) which the REAL schemas accept for a property of that name
    SOMEWHERE (references followed by definition name).  A value which is right for `uuid` of the trace type (`auto`)
    is the most plausible wrong value for `uuid` of a clock type: the single-fault enumeration tries each of them at
    every node of that name."""
    global _KEYDICT
    if _KEYDICT is not None:
        return _KEYDICT
    import glob
    import yaml
    import bt
    root = os.path.join(os.path.dirname(bt.barectf.__file__), 'schemas', 'config')
    defs, docs = {}, []
    for f in sorted(glob.glob(os.path.join(root, '**', '*.yaml'), recursive=True)):
        try:
            with open(f) as fh:
                d = yaml.safe_load(fh)
        except Exception:
            continue
        docs.append(d)
        if isinstance(d, dict):
            for k, v in (d.get('definitions') or {}).items():
                defs.setdefault(k, []).append(v)

    def strings(n, depth, seen):
        out = set()
        if depth > 6:
            return out
        if isinstance(n, dict):
            for k, v in n.items():
                if k == 'const' and isinstance(v, str):
                    out.add(v)
                elif k == 'enum' and isinstance(v, list):
                    out.update(x for x in v if isinstance(x, str))
                elif k == '$ref' and isinstance(v, str):
                    name = v.rsplit('/', 1)[-1]
                    if name not in seen:
                        for dv in defs.get(name, []):
                            out |= strings(dv, depth + 1, seen | {name})
                elif k in ('properties', 'patternProperties', 'definitions'):
                    continue        # values of OTHER properties
                else:
                    out |= strings(v, depth + 1, seen)
        elif isinstance(n, list):
            for x in n:
                out |= strings(x, depth + 1, seen)
        return out
    res = {}

    def walk(n):
        if isinstance(n, dict):
            props = n.get('properties')
            if isinstance(props, dict):
                for k, v in props.items():
                    st = strings(v, 0, frozenset())
                    if st:
                        res.setdefault(k, set()).update(st)
            for v in n.values():
                walk(v)
        elif isinstance(n, list):
            for x in n:
                walk(x)
    for d in docs:
        walk(d)
    _KEYDICT = {k: sorted(v) for k, v in res.items() if len(v) <= 12}
    return _KEYDICT



def region_of(file, path):
    s = [str(x) for x in path]
    for key, name in (('$field-type-aliases', 'aliases'), ('type-aliases', 'aliases'), ('$features', 'features'),
                      ('clock-types', 'clock'), ('clocks', 'clock'), ('options', 'options'),
                      ('environment', 'env'), ('env', 'env'), ('$log-level-aliases', 'loglevels'),
                      ('$log-levels', 'loglevels'), ('log-levels', 'loglevels'),
                      ('packet-context-field-type-extra-members', 'pcx'), ('packet-context-type', 'pcx'),
                      ('packet-header-type', 'pkt-header'), ('event-header-type', 'ev-header'),
                      ('payload-field-type', 'payload'), ('payload-type', 'payload'),
                      ('specific-context-field-type', 'sctx'), ('context-type', 'sctx'),
                      ('event-record-common-context-field-type', 'cctx'), ('event-context-type', 'cctx'),
                      ('$include', 'include')):
        if key in s:
            return ('inc:' if file != MAIN else '') + name
    return ('inc:' if file != MAIN else '') + ('top%d' % min(len(path), 5))


def enumerate_faults(base):
    """All single structural faults of a base document: list of dicts."""
    res = []
    akey = '$field-type-aliases' if base.dialect == 3 else 'type-aliases'
    for file in sorted(base.doc):
        tree = base.doc[file]
        for path, node in D.generic_walk(tree):
            nk = D.node_kind(node)
            reg = region_of(file, path)

            def add(fault, param=None, sub=None):
                res.append({'base': base.name, 'dialect': base.dialect, 'file': file, 'path': path, 'fault': fault,
                            'param': param, 'sub': sub or fault, 'nk': nk, 'region': reg})
            parent = tget(base.doc, file, path[:-1]) if path else None
            if path:
                add('delete')
            for name, val in RETYPES:
                if D.node_kind(val) == nk and (val == node or nk in ('mapping', 'sequence') and bool(val) == bool(node)
                                               and name not in ('scalarlist', 'onekeymap')):
                    continue
                add('retype', val, 'retype:' + name)
            if path and isinstance(path[-1], str) and nk in ('str', 'null', 'bool', 'int', 'float'):
                for v in key_dictionary().get(path[-1], []):
                    if v != node:
                        add('retype', v, 'dict:%s=%s' % (path[-1], v))
            if nk == 'int':
                for v in RANGE_VALUES:
                    if v != node:
                        add('range', v, 'range:%d' % v if abs(v) < 100 else 'range:2^%d' % (v.bit_length() - 1))
            if nk == 'str':
                add('alias', 'no-such-name-xyz', 'alias:unknown')
                if len(path) >= 2 and path[-2] == akey:
                    add('alias', path[-1], 'alias:self')
                if '$include' in path:
                    add('alias', file if file != MAIN else 'config.yaml', 'alias:self-inclusion')
                if path and path[-1] in ('$inherit', 'inherit'):
                    # $inherit naming the alias that contains it
                    for i, k in enumerate(path):
                        if k == akey and i + 1 < len(path):
                            add('alias', path[i + 1], 'alias:self-inherit')
            if isinstance(parent, dict):
                add('dup', None, 'dup:new-key')
                sibs = [k for k in parent if k != path[-1]]
                if sibs:
                    add('splice', sibs[(len(path) + len(sibs)) % len(sibs)], 'splice:sibling')
                for name, val in NONSTRING_KEYS:
                    add('key', val, 'key:' + name)
            elif isinstance(parent, list):
                add('dup', None, 'dup:append')
                if len(parent) > 1:
                    add('splice', (path[-1] + 1) % len(parent), 'splice:sibling')
    return res


def apply_fault(doc, f):
    file, path = f['file'], tuple(f['path'])
    fault = f['fault']
    if fault == 'delete':
        tdel(doc, file, path)
    elif fault in ('retype', 'range', 'alias'):
        tset(doc, file, path, copy.deepcopy(f['param']))
    elif fault == 'dup':
        parent = tget(doc, file, path[:-1])
        node = copy.deepcopy(tget(doc, file, path))
        if isinstance(parent, dict):
            parent['zz_copy'] = node
        else:
            parent.append(node)
    elif fault == 'splice':
        parent = tget(doc, file, path[:-1])
        tset(doc, file, path, copy.deepcopy(parent[f['param']]))
    elif fault == 'key':
        parent = tget(doc, file, path[:-1])
        rename_key(parent, path[-1], f['param'])


def dump_doc(base, doc):
    base_doc = base.doc
    files = {}
    for fn in sorted(doc):
        if fn != MAIN and fn in base_doc and doc[fn] == base_doc[fn] and repr(doc[fn]) == repr(base_doc[fn]):
            continue
        text = D.dump_file(fn, doc[fn], base.dialect)
        text = text.replace('ZZCOMPLEXKEYZZ:', '[a, b]:').replace('ZZCOMPLEXMAPZZ:', '{a: 1}:')
        files[fn] = text
    return files


# ------------------------------------------------------------------ raw / corpus documents

def corpus_cases(scratch):
    """Targeted documents: (name, {file: text or bytes}, dialect, expected key or None)."""
    H = D.V3_HEADER
    mini3 = ('trace:\n  type:\n    native-byte-order: le\n    data-stream-types:\n      d:\n'
             '        event-record-types:\n          e:\n            payload-field-type:\n'
             '              class: struct\n              members:\n')
    mini2 = ("version: '2.2'\nmetadata:\n  trace:\n    byte-order: le\n  streams:\n    s:\n"
             "      packet-context-type:\n        class: struct\n        fields:\n"
             "          packet_size: {class: int, size: 32}\n          content_size: {class: int, size: 32}\n"
             "      events:\n        e:\n          payload-type:\n            class: struct\n            fields:\n")
    T3 = H + 'trace:\n  type:\n    native-byte-order: le\n'
    PL = '{payload-field-type: {class: struct, members: [{a: {field-type: {class: uint, size: 8}}}]}}'
    DST1 = '    data-stream-types: {d: {event-record-types: {e: ' + PL + '}}}\n'
    V2 = ("version: '2.2'\nmetadata:\n  trace: {byte-order: le}\n  streams:\n    s:\n      packet-context-type: {class: struct, "
          "fields: {packet_size: {class: int, size: 8}, content_size: {class: int, size: 8}}}\n")
    V2EV = '      events: {e: {payload-type: {class: struct, fields: {a: {class: int, size: 8}}}}}\n'
    pwn = os.path.join(scratch, 'python-tag-was-executed')
    cases = [
        # --- known deviation classes, hand-minimised (expected key in the last column)
        ('S5-scalar-root', {MAIN: '5\n'}, 2, '=cpe-all'),
        ('S5-list-root', {MAIN: '- a\n'}, 2, '=cpe-all'),
        ('S5-empty-file', {MAIN: ''}, 2, '=cpe-all'),
        ('S5-null-root', {MAIN: '~\n'}, 2, '=cpe-all'),
        ('S7-int-key-root-v2', {MAIN: "version: '2.2'\n1: 2\n"}, 2, None),
        ('S7-int-key-env', {MAIN: T3 + DST1 + '  environment: {1: a}\n'}, 3, '=cpe'),
        ('S7-yaml11-bool-key', {MAIN: T3 + DST1 + '  environment: {no: 1}\n'}, 3, '=cpe'),
        ('S7-int-key-dsts', {MAIN: T3 + '    data-stream-types: {1: {}}\n'}, 3, '=cpe'),
        ('S4-dynamic-array-no-element', {MAIN: H + mini3 + '                - a: {field-type: {class: dynamic-array}}\n'}, 3,
         '=cpe'),
        ('S4-dynamic-array-element-class-map',
         {MAIN: T3 + '    data-stream-types:\n      d:\n        packet-context-field-type-extra-members:\n'
                     '          - a: {field-type: {class: dynamic-array, element-field-type: {class: {}}}}\n'
                     '        event-record-types: {e: ' + PL + '}\n'}, 3, '=cpe'),
        ('S4-dynamic-array-element-alignment-0',
         {MAIN: H + mini3 + '                - a: {field-type: {class: dynamic-array, element-field-type: '
                            '{class: uint, size: 8, alignment: 0}}}\n'}, 3, '=cpe'),
        ('S4-dynamic-array-element-size-true',
         {MAIN: H + mini3 + '                - a: {field-type: {class: dynamic-array, element-field-type: {class: uint, size: true}}}\n'}, 3,
         '=cpe'),
        ('S14-static-array-no-length',
         {MAIN: H + mini3 + '                - a: {field-type: {class: static-array, element-field-type: {class: str}}}\n'}, 3,
         '=cpe'),
        ('S15-deep-flow-seq', {MAIN: '[' * 1000 + ']' * 1000 + '\n'}, 2, '=cpe-all'),
        ('S15-deep-flow-seq-v3', {MAIN: H + 'trace: ' + '[' * 1000 + ']' * 1000 + '\n'}, 3, '=cpe'),
        ('S15-deep-flow-map', {MAIN: '{a: ' * 1000 + '1' + '}' * 1000 + '\n'}, 2, '=cpe-all'),
        ('S15-deep-block', {MAIN: ''.join(' ' * i + 'a:\n' for i in range(600)) + ' ' * 600 + 'b\n'}, 2,
         '=cpe-all'),
        ('S6-beginning-timestamp-no-clock',
         {MAIN: T3 + '    data-stream-types:\n      d:\n        $features:\n'
                     '          packet: {beginning-timestamp-field-type: true}\n        event-record-types:\n          e: ' + PL + '\n'}, 3,
         '=cpe'),
        ('S6-er-timestamp-no-clock',
         {MAIN: T3 + '    data-stream-types:\n      d:\n        $features:\n'
                     '          event-record: {timestamp-field-type: true}\n        event-record-types:\n          e: ' + PL + '\n'}, 3,
         '=cpe'),
        ('uuid-feature-without-uuid',
         {MAIN: T3 + '    $features: {uuid-field-type: true}\n    data-stream-types: {d: {event-record-types: {e: ' + PL + '}}}\n'}, 3,
         '=cpe'),
        ('huge-length', {MAIN: H + mini3 + '                - a: {field-type: {class: static-array, length: %d, '
                               'element-field-type: {class: uint, size: 8}}}\n' % (2 ** 64)}, 3,
         'NEW-unbounded-integer-property-does-not-compile'),
        ('huge-alignment', {MAIN: H + mini3 + '                - a: {field-type: {class: uint, size: 8, alignment: %d}}\n' % (2 ** 64)}, 3,
         'NEW-unbounded-integer-property-does-not-compile'),
        ('enum-mappings-null', {MAIN: H + mini3 + '                - a: {field-type: {class: uenum, size: 8, mappings: null}}\n'}, 3,
         '=cpe'),
        ('S8-member-field-type-bool',
         {MAIN: T3 + '    $field-type-aliases: {u: {class: uint, size: 8}}\n    data-stream-types: {d: {event-record-types: {e: '
                     '{payload-field-type: {class: struct, members: [{a: {field-type: true}}]}}}}}\n'}, 3, '=cpe'),
        ('S8-alias-element-field-type-bool',
         {MAIN: T3 + '    $field-type-aliases: {arr: {class: static-array, length: 16, element-field-type: true}}\n'
                     '    data-stream-types: {d: {event-record-types: {e: '
                     '{payload-field-type: {class: struct, members: [{a: arr}]}}}}}\n'}, 3, '=cpe'),
        ('S8-member-element-field-type-bool',
         {MAIN: T3 + '    $field-type-aliases: {u: {class: uint, size: 8}}\n    data-stream-types: {d: {event-record-types: {e: '
                     '{payload-field-type: {class: struct, members: [{a: {field-type: {class: static-array, length: 2, '
                     'element-field-type: true}}}]}}}}}\n'}, 3, '=cpe'),
        ('S8-root-key-required', {MAIN: H + 'required: 1\n' + mini3 + '                - a: {field-type: {class: str}}\n'}, 3,
         '=cpe'),
        ('S8-trace-type-key-required', {MAIN: T3 + '    required: 1\n' + DST1}, 3, '=cpe'),
        ('S8-trace-without-type', {MAIN: H + 'trace: {}\n'}, 3, '=cpe'),
        ('S8-aliases-without-dsts', {MAIN: T3 + '    $field-type-aliases: {}\n'}, 3, '=cpe'),
        ('S8-empty-member-entry',
         {MAIN: T3 + '    $field-type-aliases: {}\n    data-stream-types:\n      d:\n'
                     '        packet-context-field-type-extra-members: [{}]\n        event-record-types: {e: {}}\n'}, 3,
         '=cpe'),
        ('S8-member-entry-scalar',
         {MAIN: T3 + '    $field-type-aliases: {}\n    data-stream-types:\n      d:\n'
                     '        packet-context-field-type-extra-members: [5]\n        event-record-types: {e: {}}\n'}, 3, None),
        ('S8-member-value-int',
         {MAIN: T3 + '    $field-type-aliases: {}\n    data-stream-types:\n      d:\n'
                     '        packet-context-field-type-extra-members: [{a: 5}]\n        event-record-types: {e: {}}\n'}, 3,
         '=cpe'),
        ('S8-member-inherit-int',
         {MAIN: T3 + '    $field-type-aliases: {}\n    data-stream-types:\n      d:\n'
                     '        packet-context-field-type-extra-members: [{a: {field-type: {$inherit: 5}}}]\n'
                     '        event-record-types: {e: {}}\n'}, 3, '=cpe'),
        ('S8-member-members-int',
         {MAIN: T3 + '    $field-type-aliases: {}\n    data-stream-types:\n      d:\n'
                     '        packet-context-field-type-extra-members: [{a: {field-type: {class: struct, members: 5}}}]\n'
                     '        event-record-types: {e: {}}\n'}, 3, '=cpe'),
        ('S8-v2-inherit-null-alias',
         {MAIN: "version: '2.2'\nmetadata:\n  type-aliases: {x: null}\n  trace: {byte-order: le}\n  streams:\n    s:\n"
                "      packet-context-type: {class: struct, fields: {packet_size: {class: int, size: 8}, "
                "content_size: {class: int, size: 8}}}\n"
                "      events: {e: {payload-type: {class: struct, fields: {a: {$inherit: x}}}}}\n"}, 2, '=cpe'),
        ('S8-v2-true-alias',
         {MAIN: "version: '2.2'\nmetadata:\n  type-aliases: {x: true}\n  trace: {byte-order: le}\n  streams:\n    s:\n"
                "      packet-context-type: {class: struct, fields: {packet_size: {class: int, size: 8}, "
                "content_size: {class: int, size: 8}}}\n"
                "      events: {e: {payload-type: {class: struct, fields: {a: x}}}}\n"}, 2, '=cpe'),
        ('S8-inherit-null-alias',
         {MAIN: T3 + '    $field-type-aliases: {x: null}\n    data-stream-types: {d: {event-record-types: {e: '
                     '{payload-field-type: {$inherit: x}}}}}\n'}, 3, '=cpe'),
        ('S8-inherit-true-alias',
         {MAIN: T3 + '    $field-type-aliases: {x: true}\n    data-stream-types: {d: {event-record-types: {e: '
                     '{payload-field-type: {$inherit: x}}}}}\n'}, 3, '=cpe'),
        ('S8-v2-fields-null-with-aliases',
         {MAIN: "version: '2.2'\nmetadata:\n  type-aliases: {}\n  trace: {byte-order: le}\n  streams:\n    s:\n"
                "      packet-context-type: {class: struct, fields: null}\n      events: {e: {}}\n"}, 2,
         '=nodev'),
        ('S8-v2-packet-context-fields-null',
         {MAIN: "version: '2.2'\nmetadata:\n  trace: {byte-order: le}\n  streams:\n    s:\n"
                "      packet-context-type: {class: struct, fields: null}\n      events: {e: {}}\n"}, 2, '=nodev'),
        ('S8-v2-event-header-without-fields', {MAIN: V2 + '      event-header-type: {class: struct}\n' + V2EV}, 2, '=nodev'),
        ('S8-v2-payload-fields-null', {MAIN: V2 + '      events: {e: {payload-type: {class: struct, fields: null}}}\n'}, 2,
         '=nodev'),
        ('S8-v2-packet-header-without-fields',
         {MAIN: V2.replace('trace: {byte-order: le}', 'trace: {byte-order: le, packet-header-type: {class: struct}}') + V2EV}, 2,
         '=nodev'),
        ('S18-size-float', {MAIN: H + mini3 + '                - a: {field-type: {class: uint, size: 8.0}}\n'}, 3,
         '=cpe'),
        ('S18-alignment-float', {MAIN: H + mini3 + '                - a: {field-type: {class: uint, size: 8, alignment: 8.0}}\n'}, 3,
         '=cpe'),
        ('S18-enum-mapping-float',
         {MAIN: H + mini3 + '                - a: {field-type: {class: uenum, size: 8, mappings: {A: [1.0]}}}\n'}, 3,
         '=cpe'),
        ('S18-type-id-size-float',
         {MAIN: T3 + '    data-stream-types:\n      d:\n        $features: {event-record: {type-id-field-type: {class: uint, size: 8.0}}}\n'
                     '        event-record-types: {e: ' + PL + '}\n'}, 3, '=cpe'),
        ('S18-dst-id-size-float',
         {MAIN: T3 + '    $features: {data-stream-type-id-field-type: {class: uint, size: 8.0}}\n'
                     '    data-stream-types: {d: {event-record-types: {e: ' + PL + '}}}\n'}, 3,
         '=cpe'),
        ('S18-v2-size-float', {MAIN: mini2 + '              a: {class: int, size: 8.0}\n'}, 2, None),   # accepted, `size = 8.0;` in the metadata
        ('S18-v2-enum-value-float',
         {MAIN: mini2 + '              a: {class: enum, value-type: {class: int, size: 8}, members: [{label: A, value: 1.0}]}\n'}, 2,
         '=cpe'),
        ('member-name-dash', {MAIN: H + mini3 + '                - a-b: {field-type: {class: uint, size: 8}}\n'}, 3,
         '=cpe'),
        ('member-name-dash-unvalidated', {MAIN: H + mini3 + '                - a-b: 5\n'}, 3, '=cpe'),
        ('member-name-dash-unvalidated-with-aliases',
         {MAIN: T3 + '    $field-type-aliases: {u: {class: uint, size: 8}}\n    data-stream-types: {d: {event-record-types: {e: '
                     '{payload-field-type: {class: struct, members: [{a-b: 5}]}}}}}\n'}, 3, '=cpe'),
        ('extra-member-name-dash-unvalidated-with-aliases',
         {MAIN: T3 + '    $field-type-aliases: {u: {class: uint, size: 8}}\n    data-stream-types:\n      d:\n'
                     '        packet-context-field-type-extra-members: [{a-b: 5}]\n        event-record-types: {e: ' + PL + '}\n'}, 3, '=cpe'),
        ('include-path-with-nul', {MAIN: T3.replace('native-byte-order: le', '$include: ["std\\0int.yaml"]\n    native-byte-order: le') + DST1}, 3, '=cpe'),
        ('python-apply-exit', {MAIN: H + 'trace: !!python/object/apply:builtins.exit [0]\n'}, 3, '=cpe'),
        ('python-apply-exit-v2', {MAIN: "version: '2.2'\nmetadata: !!python/object/apply:builtins.exit [0]\n"}, 2, '=cpe'),
        ('dynamic-array-length-member-collision',
         {MAIN: H + mini3 + '                - foo: {field-type: {class: dynamic-array, element-field-type: {class: uint, size: 8}}}\n'
                            '                - __foo_len: {field-type: {class: uint, size: 8}}\n'}, 3, '=cpe'),
        ('dynamic-array-length-member-collision-reversed',
         {MAIN: H + mini3 + '                - __foo_len: {field-type: {class: uint, size: 8}}\n'
                            '                - foo: {field-type: {class: dynamic-array, element-field-type: {class: uint, size: 8}}}\n'}, 3, '=cpe'),
        ('extra-member-timestamp-end-without-clock',
         {MAIN: T3 + '    data-stream-types:\n      d:\n        packet-context-field-type-extra-members:\n'
                     '          - timestamp_end: {field-type: {class: uint, size: 8}}\n        event-record-types: {e: ' + PL + '}\n'}, 3, None),
        ('extra-member-timestamp-begin-without-clock',
         {MAIN: T3 + '    data-stream-types:\n      d:\n        packet-context-field-type-extra-members:\n'
                     '          - timestamp_begin: {field-type: {class: uint, size: 8}}\n        event-record-types: {e: ' + PL + '}\n'}, 3, None),
        ('extra-member-seq-num-feature-off',
         {MAIN: T3 + '    data-stream-types:\n      d:\n        $features: {packet: {sequence-number-field-type: false}}\n'
                     '        packet-context-field-type-extra-members:\n'
                     '          - packet_seq_num: {field-type: {class: static-array, length: 2, element-field-type: {class: uint, size: 8}}}\n'
                     '        event-record-types: {e: ' + PL + '}\n'}, 3, None),
        ('member-keyword-int', {MAIN: H + mini3 + '                - int: {field-type: {class: uint, size: 8}}\n'}, 3, None),
        ('yaml-complex-key', {MAIN: '[a]: 1\n'}, 2, '=cpe'),
        ('yaml-complex-key-v3', {MAIN: H + '{a: 1}: 1\n'}, 3, '=cpe'),
        ('yaml-map-tag-on-scalar', {MAIN: 'a: !!map b\n'}, 2, '=cpe'),
        ('yaml-int-tag-on-word', {MAIN: 'a: !!int b\n'}, 2, '=cpe'),
        ('yaml-invalid-utf8', {MAIN: b'a: \xff\n'}, 2, '=cpe'),
        # --- special documents
        ('empty-v3-tag-only', {MAIN: H}, 3, None),
        ('v3-tag-scalar', {MAIN: H.rstrip('\n') + ' 5\n'}, 3, None),
        ('v3-tag-list', {MAIN: H + '- a\n- b\n'}, 3, None),
        ('v3-empty-map', {MAIN: H.rstrip('\n') + ' {}\n'}, 3, None),
        ('v2-empty-map', {MAIN: '{}\n'}, 2, None),
        ('string-root', {MAIN: 'just a string\n'}, 2, None),
        ('two-documents', {MAIN: 'a: 1\n---\nb: 2\n'}, 2, None),
        ('only-comment', {MAIN: '# nothing\n'}, 2, None),
        ('anchors-merge-v3',
         {MAIN: H + 'trace:\n  type:\n    native-byte-order: le\n    data-stream-types:\n      d:\n        event-record-types:\n'
                    '          e: &ev\n            payload-field-type:\n              class: struct\n              members:\n'
                    '                - a: {field-type: &u8 {class: uint, size: 8}}\n                - b: {field-type: *u8}\n'
                    '          f:\n            <<: *ev\n            log-level: 3\n'}, 3, None),
        ('alias-bomb-small',
         {MAIN: 'a: &a [x, x, x, x]\nb: &b [*a, *a, *a, *a]\nc: &c [*b, *b, *b, *b]\nd: &d [*c, *c, *c, *c]\ne: [*d, *d, *d, *d]\n'
                "version: '2.2'\n"}, 2, None),
        ('recursive-alias-seq', {MAIN: "version: '2.2'\nmetadata: &m [*m]\n"}, 2, None),
        ('recursive-alias-map', {MAIN: "version: '2.2'\nmetadata: &m {trace: *m, streams: *m}\n"}, 2, None),
        ('recursive-alias-map-v3', {MAIN: H + 'trace: &t\n  type: *t\n'}, 3, None),
        ('merge-key-scalar', {MAIN: "version: '2.2'\nmetadata:\n  <<: 5\n"}, 2, None),
        ('python-name', {MAIN: "version: '2.2'\nmetadata: !!python/name:os.getcwd\n"}, 2, '=cpe'),
        ('python-apply-harmless', {MAIN: "version: '2.2'\nmetadata: !!python/object/apply:os.getcwd []\n"}, 2, '=cpe'),
        ('python-apply-mkdir-in-scratch',
         {MAIN: "version: '2.2'\nmetadata: !!python/object/apply:os.mkdir ['%s']\n" % pwn}, 2, '=cpe'),
        ('python-tuple-key', {MAIN: "version: '2.2'\n? !!python/tuple [1, 2]\n: 3\n"}, 2, None),
        ('python-object-new', {MAIN: H + 'trace: !!python/object/new:collections.OrderedDict []\n'}, 3, '=cpe'),
        ('python-module', {MAIN: "version: '2.2'\nmetadata: !!python/module:os\n"}, 2, '=cpe'),
        ('yaml-set', {MAIN: "version: '2.2'\nmetadata: !!set {a, b}\n"}, 2, None),
        ('yaml-omap', {MAIN: "version: '2.2'\nmetadata: !!omap [a: 1, b: 2]\n"}, 2, None),
        ('yaml-binary', {MAIN: "version: '2.2'\nmetadata: !!binary aGVsbG8=\n"}, 2, None),
        ('yaml-timestamp-value', {MAIN: H + mini3 + '                - a: {field-type: {class: uint, size: 2001-12-14}}\n'}, 3, None),
        ('yaml-inf-size', {MAIN: H + mini3 + '                - a: {field-type: {class: uint, size: .inf}}\n'}, 3, None),
        ('yaml-nan-size', {MAIN: H + mini3 + '                - a: {field-type: {class: uint, size: .nan}}\n'}, 3, None),
        ('yaml-sexagesimal-size', {MAIN: H + mini3 + '                - a: {field-type: {class: uint, size: 1:04}}\n'}, 3, None),
        ('unknown-tag', {MAIN: "version: '2.2'\nmetadata: !foo 5\n"}, 2, None),
        ('unknown-tag-root', {MAIN: '--- !<tag:barectf.org,2020/4/config>\ntrace: {}\n'}, 3, None),
        ('complex-key-root', {MAIN: "version: '2.2'\n[a, b]: 1\n"}, 2, None),
        ('complex-map-key', {MAIN: H + 'trace:\n  {a: 1}: 2\n'}, 3, None),
        ('tabs', {MAIN: "version: '2.2'\nmetadata:\n\ttrace: {}\n"}, 2, None),
        ('nul-byte', {MAIN: b"version: '2.2'\nmetadata: \x00\n"}, 2, None),
        ('invalid-utf8', {MAIN: b"version: '2.2'\nprefix: \xff\xfe\n"}, 2, None),
        ('invalid-utf8-continuation', {MAIN: b"version: '2.2'\nprefix: a\x80b\n"}, 2, None),
        ('utf16-bom', {MAIN: "version: '2.2'\n".encode('utf-16')}, 2, None),
        ('utf8-bom', {MAIN: b"\xef\xbb\xbfversion: '2.2'\nmetadata: {}\n"}, 2, None),
        ('crlf', {MAIN: (H + mini3 + '                - a: {field-type: {class: str}}\n').replace('\n', '\r\n')}, 3, None),
        ('huge-int-size', {MAIN: H + mini3 + '                - a: {field-type: {class: uint, size: %d}}\n' % (10 ** 400)}, 3, None),
        ('include-self', {MAIN: H + 'trace:\n  $include: [config.yaml]\n'}, 3, None),
        ('include-dir', {MAIN: H + 'trace:\n  $include: [.]\n'}, 3, None),
        ('include-absolute-missing', {MAIN: H + 'trace:\n  $include: [/nonexistent/zz.yaml]\n'}, 3, None),
        ('include-non-yaml', {MAIN: H + 'trace:\n  $include: [other.yaml]\n', 'other.yaml': '[[[\n'}, 3, None),
        ('include-scalar-file', {MAIN: H + 'trace:\n  $include: [other.yaml]\n', 'other.yaml': '5\n'}, 3, None),
        ('include-list-file', {MAIN: H + 'trace:\n  $include: [other.yaml]\n', 'other.yaml': '- a\n'}, 3, None),
        ('include-empty-file', {MAIN: H + 'trace:\n  $include: [other.yaml]\n', 'other.yaml': ''}, 3, None),
        ('include-v3-tagged-file', {MAIN: H + 'trace:\n  $include: [other.yaml]\n', 'other.yaml': H + 'trace: {}\n'}, 3, None),
        ('include-empty-file-v2', {MAIN: "version: '2.2'\nmetadata:\n  $include: other.yaml\n", 'other.yaml': ''}, 2, None),
        ('include-scalar-file-v2', {MAIN: "version: '2.2'\nmetadata:\n  $include: other.yaml\n", 'other.yaml': '5\n'}, 2, None),
        ('include-deep-chain', dict({MAIN: H + 'trace:\n  $include: [c0.yaml]\n'},
                                    **{'c%d.yaml' % i: '$include: [c%d.yaml]\n' % (i + 1) for i in range(400)}), 3, None),
        ('alias-chain-deep',
         {MAIN: H + 'trace:\n  type:\n    native-byte-order: le\n    $field-type-aliases:\n      a0: {class: str}\n' +
                ''.join('      a%d: a%d\n' % (i + 1, i) for i in range(600)) +
                '    data-stream-types:\n      d:\n        event-record-types:\n          e:\n            payload-field-type:\n'
                '              class: struct\n              members:\n                - m: a600\n'}, 3, None),
        ('inherit-chain-deep',
         {MAIN: H + 'trace:\n  type:\n    native-byte-order: le\n    $field-type-aliases:\n      a0: {class: uint, size: 8}\n' +
                ''.join('      a%d: {$inherit: a%d}\n' % (i + 1, i) for i in range(400)) +
                '    data-stream-types:\n      d:\n        event-record-types:\n          e:\n            payload-field-type:\n'
                '              class: struct\n              members:\n                - m: a400\n'}, 3, None),
        ('nested-static-arrays-deep',
         {MAIN: H + mini3 + '                - a:\n                    field-type: ' +
                '{class: static-array, length: 1, element-field-type: ' * 300 + '{class: str}' + '}' * 300 + '\n'}, 3, None),
    ]
    return cases, pwn


def raw_mutations(text, rng, count):
    """Byte-level corruptions of a valid document."""
    data = text.encode('utf-8')
    out = []
    n = len(data)
    for i in range(count):
        kind = ['bitflip', 'bitflip3', 'truncate', 'tab', 'nul', 'badutf8', 'delete-line', 'dup-line', 'swap-lines',
                'indent', 'dedent', 'colon', 'bracket', 'quote', 'anchor', 'tag', 'crlf-one', 'ctrl'][i % 18]
        b = bytearray(data)
        lines = text.split('\n')
        if kind in ('bitflip', 'bitflip3'):
            for _ in range(1 if kind == 'bitflip' else 3):
                p = rng.randrange(n)
                b[p] ^= 1 << rng.randrange(8)
            out.append((kind, bytes(b)))
        elif kind == 'truncate':
            out.append((kind, bytes(b[:rng.randrange(1, n)])))
        elif kind in ('tab', 'nul', 'badutf8', 'ctrl'):
            ins = {'tab': b'\t', 'nul': b'\x00', 'badutf8': rng.choice([b'\xff', b'\xc3', b'\x80', b'\xed\xa0\x80', b'\xf8\x88\x80\x80\x80']),
                   'ctrl': rng.choice([b'\x07', b'\x1b', b'\x7f', b'\x85', b'\xe2\x80\xa8'])}[kind]
            p = rng.randrange(n)
            if kind == 'tab' and rng.random() < 0.6:
                # at a line start (indentation)
                starts = [0] + [j + 1 for j in range(n - 1) if data[j] == 10]
                p = rng.choice(starts)
            out.append((kind, bytes(b[:p] + ins + b[p:])))
        else:
            j = rng.randrange(max(1, len(lines) - 1))
            if kind == 'delete-line':
                del lines[j]
            elif kind == 'dup-line':
                lines.insert(j, lines[j])
            elif kind == 'swap-lines' and j + 1 < len(lines):
                lines[j], lines[j + 1] = lines[j + 1], lines[j]
            elif kind == 'indent':
                lines[j] = '  ' + lines[j]
            elif kind == 'dedent':
                lines[j] = lines[j][2:] if lines[j].startswith('  ') else lines[j]
            elif kind == 'colon':
                lines[j] = lines[j].replace(':', rng.choice(['', '::', ' :', ':-']), 1)
            elif kind == 'bracket':
                lines[j] = lines[j] + rng.choice([' [', ' {', ' ]', ' }', ' [[[', ' {a: [}'])
            elif kind == 'quote':
                lines[j] = lines[j] + rng.choice([" '", ' "', " 'a", ' |', ' >'])
            elif kind == 'anchor':
                lines[j] = lines[j] + rng.choice([' &x', ' *x', ' *nope', ' <<: *x'])
            elif kind == 'tag':
                lines[j] = lines[j].replace(': ', ': %s ' % rng.choice(['!!str', '!!int', '!!map', '!!python/name:os.getcwd', '!x', '!!float']), 1)
            elif kind == 'crlf-one':
                lines[j] = lines[j] + '\r'
            out.append((kind, '\n'.join(lines).encode('utf-8')))
    return out


# ------------------------------------------------------------------ root-cause attribution

FIXES = ('S18', 'S4', 'S14', 'MEMBER')


class schema_fix:
    """Context manager: the REAL front end with ONE known schema hole closed (in memory, nothing
    in /repo is touched).  Only used to attribute a crash / a non-compiling accepted document to
    its root cause: if closing hole X turns the outcome into a configuration error, X is the cause.
      S18    - jsonschema 3.2.0 accepts integral floats (8.0) for `type: integer`
      S4     - duplicate key dynamic-array-ft-class-prop in schemas/config/3/field-type.yaml
      S14    - static-array-ft does not require `length`
      MEMBER - struct-ft-members has no additionalProperties: false (member names outside the pattern
               are accepted and their value is not validated)
    """

    def __init__(self, name):
        self.name = name

    def __enter__(self):
        import bt  # noqa: F401
        import barectf.config_parse_common as c
        import jsonschema
        self.c, self.js = c, jsonschema
        self.orig_init = c._SchemaValidator.__init__
        self.orig_tc = jsonschema.Draft7Validator.TYPE_CHECKER
        name, orig_init = self.name, self.orig_init

        def init(sv, subdirs):
            orig_init(sv, subdirs)
            ft = sv._store.get('https://barectf.org/schemas/config/3/field-type.json')
            if not ft:
                return
            defs = ft['definitions']
            if name == 'S4' and 'dynamic-array-ft' not in defs:
                defs['dynamic-array-ft'] = defs['dynamic-array-ft-class-prop']
                defs['dynamic-array-ft-class-prop'] = {'type': 'string', 'const': 'dynamic-array'}
            if name == 'S14':
                defs['static-array-ft'] = dict(defs['static-array-ft'], required=['length'])
            if name == 'MEMBER':
                items = dict(defs['struct-ft-members']['items'], additionalProperties=False)
                defs['struct-ft-members'] = dict(defs['struct-ft-members'], items=items)
        c._SchemaValidator.__init__ = init
        if name == 'S18':
            jsonschema.Draft7Validator.TYPE_CHECKER = self.orig_tc.redefine(
                'integer', lambda checker, inst: isinstance(inst, int) and not isinstance(inst, bool))
        return self

    def __exit__(self, *a):
        self.c._SchemaValidator.__init__ = self.orig_init
        self.js.Draft7Validator.TYPE_CHECKER = self.orig_tc
        return False


FLOAT_TOKEN = re.compile(r'[0-9]\.0\b')


class schema_fixes:
    """Several holes closed at once."""

    def __init__(self, names):
        self.cms = [schema_fix(n) for n in names]

    def __enter__(self):
        for cm in self.cms:
            cm.__enter__()
        return self

    def __exit__(self, *a):
        for cm in reversed(self.cms):
            cm.__exit__(*a)
        return False


def attribute(main, incdirs, fixes=FIXES):
    """Name of the schema hole whose repair makes the front end reject the document.  When no single
    repair does, an unvalidated sub-tree (S4, then MEMBER) combined with one other hole is tried: the
    unvalidated sub-tree is then the primary cause."""
    for fx in fixes:
        with schema_fix(fx):
            r = D.call_api('from_file', main, incdirs, timeout=CASE_TIMEOUT)
        if r['outcome'] == 'cpe':
            return fx
    if len(fixes) > 1:
        for primary in ('S4', 'MEMBER'):
            for other in fixes:
                if other == primary:
                    continue
                with schema_fixes((primary, other)):
                    r = D.call_api('from_file', main, incdirs, timeout=CASE_TIMEOUT)
                if r['outcome'] == 'cpe':
                    return primary
    return None


def is_post_validation_site(site):
    sfile, _, fn = (site or '').partition(':')
    return (sfile == 'config_parse_v3.py' and bool(V3_POST.match(fn))) or sfile == 'config.py'


# ------------------------------------------------------------------ worker

_WB = {}


def _bases(scratch):
    if not _WB:
        for b in D.all_bases() + F.form_bases():
            b.incdir = os.path.join(scratch, 'bases', b.name)
            _WB[b.name] = b
    return _WB


def _slim(r):
    return {k: v for k, v in r.items() if k != 'value'}


def _api(api, main, incdirs):
    """call_api with a confirmation run: a timeout only counts when a second run with four times the
    time does not finish either (the machine may be loaded)."""
    r = D.call_api(api, main, incdirs, timeout=CASE_TIMEOUT)
    if r['outcome'] == 'timeout':
        r = D.call_api(api, main, incdirs, timeout=CASE_TIMEOUT * 4)
    return r


def _case(task):
    """Worker: build the files of one case, run the three entry points, generate + compile when accepted."""
    import bt
    scratch = task['scratch']
    bases = _bases(scratch)
    base = bases.get(task.get('base'))
    out = {'id': task['id']}
    try:
        if task['kind'] in ('struct', 'multi'):
            doc = copy.deepcopy(base.doc)
            applied = 0
            for f in task['faults']:
                try:
                    apply_fault(doc, f)
                    applied += 1
                except Exception:
                    pass
            if not applied:
                return {'id': task['id'], 'skip': 'fault does not apply'}
            files = dump_doc(base, doc)
        else:
            files = task['files']
    except Exception as e:
        return {'id': task['id'], 'skip': 'build failed: %r' % (e,)}
    d = os.path.join(scratch, 'w%d' % task['id'])
    try:
        main = D.write_case(d, files)
        # the case's own directory under one of four spellings (canonical, `/.`, `/../name`, doubled slash): the outcome
        # of the front end must not depend on how an inclusion directory is written
        inc_fault = any(f.get('sub') == 'alias:self-inclusion' or '$include' in [str(x) for x in (f.get('path') or [])]
                        for f in (task.get('faults') or []))
        # (faults on inclusions always run under a non-canonical spelling: cycle detection compares paths)
        dsp = [d, d + '/.', os.path.join(d, '..', os.path.basename(d)), os.path.dirname(d) + '//' + os.path.basename(d)][
            (1 + task['id'] % 3) if inc_fault else task['id'] % 4]
        incdirs = [dsp] + ([base.incdir] if base is not None else [])
        r = _api('from_file', main, incdirs)
        out['from_file'] = _slim(r)
        out['size'] = sum(len(v) for v in files.values())
        out['depth'] = max([_nesting(v) for v in files.values()] or [0])
        out['nfiles'] = len(files)
        out['hash'] = D.sha('\0'.join('%s\0%s' % (k, v if isinstance(v, str) else v.decode('latin1'))
                                       for k, v in sorted(files.items())))
        if task.get('all_apis') or r['outcome'] == 'ok':
            e = _api('effective', main, incdirs)
            out['effective'] = {k: v for k, v in _slim(e).items()}
            if e['outcome'] == 'ok':
                out['effective']['len'] = len(e['value'])
        if task.get('all_apis') or task.get('version_api'):
            v = _api('major_version', main, incdirs)
            out['major_version'] = dict(_slim(v), value=v.get('value'))
        if r['outcome'] == 'ok':
            gen = os.path.join(d, 'gen')
            try:
                gfiles = bt.generate(r['value'], gen)
                out['generated'] = sorted(gfiles)
                ctypes = r['value'].options.code_generation_options.clock_type_c_types or {}
                out['odd_c_type'] = any(not C_TYPE_OK.match(str(v)) for v in ctypes.values())
                fails = D.compile_generated(gfiles, gen, seen_dir=os.path.join(scratch, 'seen'))
                out['compile_fail'] = fails[:1]
            except BaseException as exc:  # noqa: BLE001
                site = D.barectf_site(exc.__traceback__)
                out['generate_exc'] = {'exc_type': type(exc).__name__, 'msg': str(exc)[:300],
                                       'site': site[0] if site else D.innermost(exc.__traceback__)}
        if (r['outcome'] == 'other' and is_post_validation_site(r.get('site'))) or out.get('compile_fail') or \
                'generate_exc' in out:
            out['attrib'] = attribute(main, incdirs)
        elif r['outcome'] == 'other' and (r.get('site') or '').startswith(('config_parse_v2.py', 'config_parse_common.py:_', 'config_parse_v3.py')) \
                and r.get('exc_type') != 'RecursionError' and not (r.get('inner') or '').startswith(('re/', 'jsonschema/')) \
                and (r.get('site') or '').split(':')[-1] not in YAML_STAGE \
                and any(isinstance(v, str) and FLOAT_TOKEN.search(v) for v in files.values()):
            # a pre-expansion / conversion stage crash of a document that contains an integral float
            out['attrib'] = attribute(main, incdirs, ('S18',))
        keep = (r['outcome'] not in ('cpe',) or task.get('keep_files') or
                any(out.get(a, {}).get('outcome') in ('other', 'timeout') for a in ('effective', 'major_version')))
        if keep:
            out['files'] = {k: (v if isinstance(v, str) else v.decode('latin1')) for k, v in files.items()}
            out['binary'] = [k for k, v in files.items() if not isinstance(v, str)]
        return out
    finally:
        shutil.rmtree(d, ignore_errors=True)


def _nesting(text):
    """nesting depth of a YAML text: flow brackets and block indentation"""
    if isinstance(text, bytes):
        text = text.decode('latin1')
    d = m = 0
    for ch in text:
        if ch in '[{':
            d += 1
            m = max(m, d)
        elif ch in ']}':
            d = max(0, d - 1)
    ind = max([len(l) - len(l.lstrip(' ')) for l in text.splitlines()] or [0])
    return max(m, ind // 1 if ind < 10000 else 10000)


# ------------------------------------------------------------------ classification

def exc_key(api, r, res):
    """Finding key of an 'other exception' result: by call-site class / root cause, not by input."""
    et, site, inner, msg = r.get('exc_type'), r.get('site') or '', r.get('inner') or '', r.get('msg', '')
    fn = site.split(':')[-1] if site else ''
    sfile = site.split(':')[0] if site else ''
    if et == 'RecursionError':
        # S15 is about deeply nested INPUT; unbounded recursion on a flat document (e.g. an inclusion cycle that is
        # not detected) is another defect
        return 'S15-deep-nesting-RecursionError' if res.get('depth', 0) >= 100 else 'NEW-RecursionError-on-flat-input-%s' % fn
    if api == 'major_version' and et == 'AssertionError' and fn == '_config_file_major_version':
        return 'S5-non-mapping-root-assert'
    if et == 'TypeError' and inner.startswith('re/') and fn == '_validate':
        return 'S7-non-string-key-TypeError'
    if et == 'AttributeError' and 'jsonschema' in inner and fn == '_validate':
        return 'S8-schema-misplaced-required'
    if fn in YAML_STAGE:
        return 'NEW-%s-_yaml_load' % et
    if et == 'KeyError' and fn == '_create_static_array_ft' and "'length'" in msg:
        return 'S14-static-array-KeyError-length'
    if res.get('attrib') == 'S18':
        return 'S19-integral-float-%s-%s' % (et, fn)
    if is_post_validation_site(site):
        a = res.get('attrib')
        if a == 'S18':
            return 'S19-integral-float-%s-%s' % (et, fn)
        if a == 'S4':
            return 'S4-dynamic-array-KeyError' if et == 'KeyError' else 'S4-dynamic-array-%s' % et
        if a == 'S14':
            return 'S14-static-array-KeyError-length'
        if a == 'MEMBER':
            return 'NEW-member-name-pattern-%s' % et
        return 'NEW-%s-%s' % (et, fn)
    if sfile in ('config_parse_common.py', 'config_parse_v2.py', 'config_parse_v3.py', 'config_parse.py'):
        return 'S8-%s' % fn
    return 'NEW-%s-%s' % (et, fn or inner)


HOLE_KEY = {'S18': 'S19-integral-float-does-not-compile', 'S4': 'S4-dynamic-array-does-not-compile',
            'S14': 'S14-static-array-does-not-compile', 'MEMBER': 'NEW-member-name-pattern-does-not-compile'}


def case_deviations(task, res):
    """All deviations of one case: list of (key, what)."""
    devs = []
    for api in ('from_file', 'effective', 'major_version'):
        r = res.get(api)
        if not r:
            continue
        oc = r['outcome']
        if oc == 'other':
            k = exc_key(api, r, res)
            devs.append((k, '%s raises %s (%s) at %s [innermost frame %s]' % (api, r.get('exc_type'), r.get('msg', '')[:120],
                                                                              r.get('site'), r.get('inner'))))
        elif oc == 'timeout':
            devs.append(('NEW-timeout-%s' % api, '%s does not return within %.0f s' % (api, CASE_TIMEOUT * 4)))
        elif oc == 'crash':
            devs.append(('NEW-process-crash-%s' % api, '%s kills the interpreter' % api))
        elif oc == 'cpe' and not r.get('cpe_ok', True):
            devs.append(('NEW-config-error-without-context', '%s: configuration error without context / message' % api))
        if oc in ('cpe', 'ok') and res.get('depth', 0) < 100 and (
                'too many nested levels' in (r.get('msg') or '') or
                r.get('yaml_loads', 0) > 100 + 20 * max(1, res.get('nfiles', 1))):
            # the recursion limit guard of the front end turns ANY exhausted recursion into a configuration error; on a
            # document that is not deeply nested this is unbounded recursion (e.g. an inclusion cycle that is not detected)
            devs.append(('NEW-unbounded-recursion-on-flat-input-%s' % api,
                         '%s recurses without bound on a document of nesting depth %d made of %d file(s): %d YAML documents loaded, %s' % (
                             api, res.get('depth', 0), res.get('nfiles', 1), r.get('yaml_loads', 0),
                             ('reported as: ' + (r.get('msg') or '')[:160]) if oc == 'cpe' else 'accepted')))
    ff, ef = res.get('from_file'), res.get('effective')
    if ff and ef and ff['outcome'] in ('ok', 'cpe') and ef['outcome'] in ('ok', 'cpe') and ff['outcome'] != ef['outcome']:
        devs.append(('NEW-effective-differs-from-load', 'configuration_from_file: %s but effective_configuration_file: %s'
                     % (ff['outcome'], ef['outcome'])))
    a = res.get('attrib')
    if 'generate_exc' in res:
        g = res['generate_exc']
        key = HOLE_KEY.get(a) or 'NEW-generate-%s-%s' % (g['exc_type'], (g['site'] or '').split(':')[-1])
        devs.append((key, 'accepted document cannot be generated: %s (%s) at %s' % (g['exc_type'], g['msg'][:120], g['site'])))
    if res.get('compile_fail'):
        name, outp = res['compile_fail'][0]
        first = [l for l in outp.splitlines() if 'error' in l][:1]
        if a in HOLE_KEY:
            key = HOLE_KEY[a]
        elif res.get('odd_c_type'):
            key = None      # the user's own `$c-type` string is not a C type: no front end can know
        elif re.search(r"[\u2018'`]ts[\u2019'] undeclared", outp):
            key = 'S6-timestamp-feature-without-clock-does-not-compile'
        elif 'integer constant is too large' in outp:
            key = 'NEW-unbounded-integer-property-does-not-compile'
        elif 'empty initializer braces' in outp:
            key = 'NEW-uuid-feature-without-uuid-does-not-compile'
        else:
            key = 'NEW-accepted-does-not-compile'
        if key is None:
            return devs
        msg1 = re.sub(r'/\S*/(gen/)', r'\1', first[0]) if first else outp[:200]
        devs.append((key, 'accepted document generates C that does not compile: %s: %s' % (name, msg1[:200])))
    return devs


# ------------------------------------------------------------------ reproducer minimisation

def _minimise(task):
    """Worker: ddmin over the lines of the root file of a failing case, keeping the deviation key.
    Bounded number of probes; returns the smallest files found."""
    files = dict(task['files'])
    key, budget = task['key'], task['budget']
    probes = [0]

    def still(lines):
        if probes[0] >= budget:
            return False
        probes[0] += 1
        f2 = dict(files)
        f2[MAIN] = '\n'.join(lines) + '\n'
        t = {'id': task['id'] * 100000 + probes[0], 'scratch': task['scratch'], 'kind': 'corpus', 'base': task.get('base'),
             'files': f2, 'faults': [], 'expect': '', 'all_apis': task['api'] != 'from_file', 'keep_files': False}
        r = _case(t)
        return 'from_file' in r and key in [k for k, _ in case_deviations(t, r)]

    lines = files[MAIN].split('\n')
    while lines and lines[-1] == '':
        lines.pop()
    n = 2
    while len(lines) >= 2 and probes[0] < budget:
        size = max(1, len(lines) // n)
        chunks = [lines[i:i + size] for i in range(0, len(lines), size)]
        reduced = False
        for i in range(len(chunks)):
            cand = [l for j, c in enumerate(chunks) if j != i for l in c]
            if cand and still(cand):
                lines, n, reduced = cand, max(n - 1, 2), True
                break
        if not reduced:
            if size == 1:
                break
            n = min(n * 2, len(lines))
    files[MAIN] = '\n'.join(lines) + '\n'
    # drop inclusion files that are no longer needed
    for fn in sorted(files):
        if fn != MAIN and probes[0] < budget:
            f2 = {k: v for k, v in files.items() if k != fn}
            t = {'id': task['id'] * 100000 + 99999, 'scratch': task['scratch'], 'kind': 'corpus', 'base': task.get('base'),
                 'files': f2, 'faults': [], 'expect': '', 'all_apis': task['api'] != 'from_file'}
            probes[0] += 1
            r = _case(t)
            if 'from_file' in r and key in [k for k, _ in case_deviations(t, r)]:
                files = f2
    return {'id': task['id'], 'files': files, 'probes': probes[0]}


# ------------------------------------------------------------------ CLI

def _cli(task):
    """Worker: run the barectf command line on one document."""
    scratch = task['scratch']
    d = os.path.join(scratch, 'cli%d' % task['id'])
    outd = os.path.join(d, 'out')
    try:
        files = {k: (v.encode('latin1') if k in task.get('binary', []) else v) for k, v in task['files'].items()}
        D.write_case(d, files)
        os.makedirs(outd)
        env = dict(os.environ)
        env['PYTHONPATH'] = common_REPO
        env['PYTHONWARNINGS'] = 'ignore'
        inc = ['--include-dir=' + d] + (['--include-dir=' + task['incdir']] if task.get('incdir') else [])
        res = {'id': task['id']}
        for name, cmd in (('generate', [BARECTF_CLI, 'generate', '--metadata-dir', outd, '--headers-dir', outd,
                                        '--code-dir', outd] + inc + [MAIN]),
                          ('show', [BARECTF_CLI, 'show-effective-configuration'] + inc + [MAIN]),
                          ('version', [BARECTF_CLI, 'show-configuration-version', MAIN])):
            try:
                p = subprocess.run(cmd, cwd=d, env=env, capture_output=True, timeout=60)
                so, se = p.stdout.decode('utf-8', 'replace'), p.stderr.decode('utf-8', 'replace')
                res[name] = {'rc': p.returncode, 'stderr_len': len(se.strip()), 'stdout_len': len(so.strip()),
                             'traceback': 'Traceback' in se or 'Traceback' in so,
                             'stderr_tail': se.strip()[-300:]}
            except subprocess.TimeoutExpired:
                res[name] = {'rc': 'timeout', 'stderr_len': 0, 'stdout_len': 0, 'traceback': False, 'stderr_tail': ''}
        made = sorted(os.listdir(outd))
        res['files_made'] = made
        if res['generate']['rc'] == 0:
            import bt
            fails = []
            for fn in made:
                if fn.endswith('.c'):
                    rc, o = bt.cc(['-ansi', '-pedantic-errors', '-fsyntax-only', '-I', outd, os.path.join(outd, fn)], cwd=outd)
                    if rc != 0:
                        fails.append((fn, o[-600:]))
            res['compile_fail'] = fails[:1]
        return res
    finally:
        shutil.rmtree(d, ignore_errors=True)


# ------------------------------------------------------------------ selection

def select_struct(faults, ctx, budget_cpu_s):
    cost = lambda f: 0.36 if f['dialect'] == 2 else 0.16   # noqa: E731
    if sum(cost(f) for f in faults) <= budget_cpu_s:
        return faults
    cells = {}
    for f in faults:
        cells.setdefault((f['base'], f['sub'], f['nk'], f['region']), []).append(f)
    keep, rest = [], []
    for k in sorted(cells, key=str):
        lst = cells[k]
        j = ctx.rng.randrange(len(lst))
        keep.append(lst[j])
        rest += lst[:j] + lst[j + 1:]
    spent = sum(cost(f) for f in keep)
    if spent > budget_cpu_s:
        # even one per cell is too much: one per (dialect, sub, nk, region), then per (sub, nk)
        ctx.rng.shuffle(keep)
        seen, k2, extra = set(), [], []
        for f in keep:
            c = (f['dialect'], f['sub'], f['nk'])
            if c in seen:
                extra.append(f)
            else:
                seen.add(c)
                k2.append(f)
        spent = sum(cost(f) for f in k2)
        for f in extra:
            if spent + cost(f) <= budget_cpu_s:
                k2.append(f)
                spent += cost(f)
        return k2
    ctx.rng.shuffle(rest)
    for f in rest:
        c = cost(f)
        if spent + c <= budget_cpu_s:
            keep.append(f)
            spent += c
    return keep


# ------------------------------------------------------------------ run

def run(ctx):
    import bt
    t0 = time.time()
    scratch = os.path.join(ctx.scratch, 'c10i')
    os.makedirs(os.path.join(scratch, 'seen'), exist_ok=True)
    cov = ctx.cov.setdefault('impl', {})
    bases, good = D.all_bases() + F.form_bases(), []
    for b in bases:
        d = b.write(os.path.join(scratch, 'bases'))
        r = D.call_api('from_file', os.path.join(d, MAIN), [d])
        ok = r['outcome'] == 'ok'
        why = _slim(r)
        if ok:
            out = os.path.join(scratch, 'gen-' + b.name)
            try:
                files = bt.generate(r['value'], out)
                fails = D.compile_generated(files, out)
            except Exception as e:
                fails = [('generate', repr(e))]
            ok = not fails
            why = fails[:1]
        if not ok and b.name.startswith('v3form-'):
            # systematic valid documents (every field type position in one form): a refusal is a
            # defect of the front end, not of the harness
            ctx.violation('front end is not total: a VALID barectf 3 document (every field type position written in the `%s` form: %s) '
                          'is not accepted / does not generate / does not compile: %s' % (b.name[7:], ', '.join(b.positions), str(why)[:300]),
                          {'document': D.dump_file(MAIN, b.doc[MAIN], 3), 'outcome': why})
        elif not ok:
            ctx.corr_broken.append('C10 impl: base document %s is not accepted/compilable (harness bug): %s' % (b.name, why))
        else:
            good.append(b)
    bases_by_name = {b.name: b for b in good}

    tasks = []
    # 1. corpus
    corpus, pwn = corpus_cases(scratch)
    for name, files, dialect, expect in corpus:
        tasks.append({'kind': 'corpus', 'name': name, 'files': files, 'dialect': dialect, 'expect': expect or '',
                      'all_apis': True, 'keep_files': True, 'faults': []})
    # 1b. one VALID minimal document per (field type position, form): must load, generate, compile
    pf = F.position_form_docs()
    for name, tree in pf:
        tasks.append({'kind': 'corpus', 'name': 'valid:' + name, 'files': {MAIN: D.dump_file(MAIN, tree, 3)}, 'dialect': 3,
                      'expect': '=ok', 'all_apis': True, 'keep_files': True, 'faults': []})
    cov['valid_position_form_documents'] = len(pf)
    # 2. single structural faults
    allf = []
    for b in good:
        allf += enumerate_faults(b)
    enumerated = len(allf)
    sel = select_struct(allf, ctx, ctx.pick(44.0, 450.0) * WORKERS)
    for i, f in enumerate(sel):
        tasks.append({'kind': 'struct', 'base': f['base'], 'dialect': f['dialect'], 'faults': [f],
                      'version_api': f['file'] == MAIN and len(f['path']) <= 1, 'all_apis': i % 8 == 0})
    # 3. multi-fault mutants
    byb = {}
    for f in allf:
        byb.setdefault(f['base'], []).append(f)
    nmulti = ctx.pick(260, 3000)
    for i in range(nmulti):
        b = good[i % len(good)] if i % 3 else good[0]
        k = ctx.rng.randrange(2, 5)
        fs = [ctx.rng.choice(byb[b.name]) for _ in range(k)]
        # deeper paths first so that earlier faults do not invalidate later paths too often
        fs.sort(key=lambda f: -len(f['path']))
        tasks.append({'kind': 'multi', 'base': b.name, 'dialect': b.dialect, 'faults': fs})
    # 4. raw byte corruption
    nraw = ctx.pick(360, 4000)
    for b in good:
        text = D.dump_file(MAIN, b.doc[MAIN], b.dialect)
        for kind, data in raw_mutations(text, ctx.rng, nraw // len(good)):
            try:
                payload = data.decode('utf-8')
            except UnicodeDecodeError:
                payload = data
            tasks.append({'kind': 'raw', 'sub': kind, 'base': b.name, 'dialect': b.dialect, 'files': {MAIN: payload},
                          'all_apis': True, 'faults': []})
    for i, t in enumerate(tasks):
        t['id'] = i
        t['scratch'] = scratch
    results = D.run_pool(_case, tasks, workers=WORKERS, chunk=8)

    # ---- aggregate
    counts, per_dialect, devs = {}, {}, {}
    accepted = generated = compiled_fail = user_ctype_fail = 0
    hashes = set()
    by_class = {'ok': [], 'cpe': [], 'other': []}
    samples, skips = [], 0
    corpus_report = {}
    for t, r in zip(tasks, results):
        if r is None or 'skip' in r:
            skips += 1
            continue
        if r.get('outcome') == 'crash':
            r = {'id': t['id'], 'from_file': {'outcome': 'crash', 'api': 'from_file'}}
        ff = r['from_file']
        oc = ff['outcome']
        hashes.add(r.get('hash', t['id']))
        if t['kind'] == 'struct':
            f = t['faults'][0]
            kind, nk = f['sub'], f['nk']
        else:
            kind, nk = t['kind'] + (':' + t['sub'] if t['kind'] == 'raw' else ''), '-'
        c = counts.setdefault(kind, {}).setdefault(nk, {})
        c[oc] = c.get(oc, 0) + 1
        dd = per_dialect.setdefault('v%s' % t.get('dialect'), {})
        dd[oc] = dd.get(oc, 0) + 1
        if oc == 'ok':
            accepted += 1
            generated += 1 if 'generated' in r else 0
            compiled_fail += 1 if r.get('compile_fail') else 0
            user_ctype_fail += 1 if r.get('compile_fail') and r.get('odd_c_type') else 0
        cd = case_deviations(t, r)
        if t['kind'] == 'corpus':
            corpus_report[t['name']] = {'from_file': oc, 'effective': (r.get('effective') or {}).get('outcome'),
                                        'major_version': (r.get('major_version') or {}).get('outcome'),
                                        'deviations': [k for k, _ in cd]}
            if t['expect'] == '=ok':
                eff = (r.get('effective') or {}).get('outcome')
                if oc != 'ok' or r.get('compile_fail') or 'generated' not in r or eff not in (None, 'ok'):
                    ctx.violation('front end is not total: the VALID barectf 3 document `%s` (field type position = form) is not accepted / '
                                  'does not generate / does not compile: from_file %s %s, effective %s, %s' % (
                                      t['name'][6:], oc, (ff.get('exc_type') or ff.get('msg') or '')[:160], eff,
                                      str(r.get('compile_fail') or '')[:160]),
                                  {'name': t['name'], 'files': t['files'], 'outcome': corpus_report[t['name']],
                                   'site': ff.get('site') or ff.get('inner')})
                    continue
            elif t['expect'] == '=nodev':
                # a defect repaired in /repo whose document may now be valid: accepted (and compiling) or
                # refused with a configuration error, never a deviation
                if cd or oc not in ('ok', 'cpe'):
                    ctx.violation('regression of a repaired defect: corpus document %s must load or be refused with a configuration error, got %s' % (
                        t['name'], corpus_report[t['name']]), {'name': t['name'], 'files': t['files'], 'outcome': corpus_report[t['name']]})
            elif t['expect'].startswith('=cpe'):
                # a defect repaired in /repo: the document must now be refused with a configuration error
                bad = oc != 'cpe' or (t['expect'] == '=cpe-all' and any(
                    (r.get(a) or {}).get('outcome') not in (None, 'cpe') for a in ('effective', 'major_version')))
                if bad or cd:
                    ctx.violation('regression of a repaired defect: corpus document %s must be refused with a configuration error, got %s' % (
                        t['name'], corpus_report[t['name']]), {'name': t['name'], 'files': t['files'], 'outcome': corpus_report[t['name']]})
            elif t['expect'] and t['expect'] not in [k for k, _ in cd]:
                ctx.notes.append('C10 corpus drift: %s expected %s, got %s' % (t['name'], t['expect'], [k for k, _ in cd] or oc))
        for key, what in cd:
            e = devs.setdefault(key, {'count': 0, 'what': what, 'min': None, 'by_kind': {}})
            e['count'] += 1
            e['by_kind'][t['kind']] = e['by_kind'].get(t['kind'], 0) + 1
            size = r.get('size', 10 ** 9)
            if t['kind'] == 'corpus':
                size = size // 1000 - 10 ** 6 if t['expect'] == key else size   # prefer the hand-minimised reproducer
            if r.get('files') is not None and (e['min'] is None or size < e['min'][0]):
                e['min'] = (size, t, r, what)
        cls = 'other' if cd else oc
        if cls in by_class and r.get('files') is not None or cls == 'cpe':
            by_class.setdefault(cls, []).append((t, r))
        if t['id'] % max(1, len(tasks) // 10) == 0 and len(samples) < 12:
            samples.append({'kind': kind, 'node_kind': nk, 'outcome': oc,
                            'position': ('%s:%s' % (t['faults'][0]['file'], '/'.join(map(str, t['faults'][0]['path'])))
                                         if t['kind'] == 'struct' else t.get('name', '')),
                            'detail': (ff.get('msg') or '')[:140]})

    # reproducers that do not come from the hand-minimised corpus are minimised (bounded ddmin)
    mtasks = []
    for key in sorted(devs):
        e = devs[key]
        if not e['min']:
            continue
        size, t, r, what = e['min']
        if t.get('kind') == 'corpus' and t.get('expect') == key:
            continue
        if r.get('binary') or not isinstance(r.get('files', {}).get(MAIN), str):
            continue
        api = 'from_file'
        for a in ('from_file', 'effective', 'major_version'):
            if (r.get(a) or {}).get('outcome') in ('other', 'timeout'):
                api = a
                break
        mtasks.append({'id': len(mtasks) + 1, 'scratch': scratch, 'key': key, 'files': r['files'], 'base': t.get('base'),
                       'api': api, 'budget': ctx.pick(45, 300)})
    minimised = {}
    if mtasks:
        for mt, mr in zip(mtasks, D.run_pool(_minimise, mtasks, workers=WORKERS, chunk=1)):
            if mr and 'files' in mr:
                minimised[mt['key']] = mr
    for key in sorted(devs):
        e = devs[key]
        size, t, r, what = e['min'] if e['min'] else (0, {}, {}, e['what'])
        if key in minimised:
            r = dict(r, files=minimised[key]['files'])
            e['minimised_probes'] = minimised[key]['probes']
        e['repro'] = r.get('files')
        replay = {'files': r.get('files'), 'latin1_encoded_binary_files': r.get('binary'),
                  'case_kind': t.get('kind'), 'case_name': t.get('name'), 'base': t.get('base'),
                  'faults': [{k: (list(v) if isinstance(v, tuple) else v) for k, v in f.items()} for f in t.get('faults', [])],
                  'occurrences': e['count'], 'by_case_kind': e['by_kind'],
                  'how': 'write the files into a directory D (plus, for struct/multi cases, the unchanged inclusion files of '
                         'c09_docs.<base>() in a second inclusion directory); call barectf.configuration_from_file / '
                         'effective_configuration_file / configuration_file_major_version(open(D/config.yaml)); '
                         'for *does-not-compile* keys run barectf.CodeGenerator and gcc -ansi -pedantic-errors -fsyntax-only'}
        ctx.finding(key, 'front end is not total: %s (%d cases)' % (what, e['count']), replay)

    # ---- CLI sample
    ncli = ctx.pick(42, 400)
    cli_tasks = []
    pools = {'ok': [], 'cpe': [], 'other': []}
    for t, r in zip(tasks, results):
        if not r or 'skip' in r or 'from_file' not in r:
            continue
        cd = case_deviations(t, r)
        oc = r['from_file']['outcome']
        cls = 'other' if (oc == 'other' or any(k for k, _ in cd)) else oc
        if cls in pools and (r.get('files') is not None):
            pools[cls].append((t, r, [k for k, _ in cd]))
    # rejected documents do not carry their files: rebuild a sample of them
    rej = [(t, r) for t, r in zip(tasks, results) if r and 'from_file' in r and r['from_file']['outcome'] == 'cpe'
           and t['kind'] in ('struct', 'multi')]
    ctx.rng.shuffle(rej)
    for t, r in rej[:ncli // 2]:
        b = bases_by_name[t['base']]
        doc = copy.deepcopy(b.doc)
        for f in t['faults']:
            try:
                apply_fault(doc, f)
            except Exception:
                pass
        pools['cpe'].append((t, dict(r, files=dump_doc(b, doc), binary=[]), []))
    want = {'ok': ncli // 4, 'cpe': ncli // 2, 'other': ncli - ncli // 4 - ncli // 2}
    for cls in ('ok', 'cpe', 'other'):
        lst = pools[cls]
        if cls == 'other':
            # one per deviation key first
            seen, first, rest = set(), [], []
            for x in lst:
                k = tuple(x[2][:1])
                (rest if k in seen else first).append(x)
                seen.add(k)
            lst = first + rest
        else:
            ctx.rng.shuffle(lst)
        for t, r, keys in lst[:want[cls]]:
            b = bases_by_name.get(t.get('base'))
            cli_tasks.append({'id': len(cli_tasks), 'scratch': scratch, 'files': r['files'], 'binary': r.get('binary', []),
                              'incdir': b.incdir if b else None, 'cls': cls, 'keys': keys,
                              'odd_c_type': bool(r.get('odd_c_type')),
                              'api': {a: (r.get(a) or {}).get('outcome') for a in ('from_file', 'effective', 'major_version')}})
    cli_results = D.run_pool(_cli, cli_tasks, workers=WORKERS, chunk=2)
    cli_counts = {'documents': len(cli_tasks), 'by_class': {}, 'same_root_cause_tracebacks': 0, 'deviations': {}}
    for t, r in zip(cli_tasks, cli_results):
        if not r or 'generate' not in r:
            continue
        cc = cli_counts['by_class'].setdefault(t['cls'], {'n': 0, 'generate_rc': {}, 'show_rc': {}})
        cc['n'] += 1
        g, s = r['generate'], r['show']
        cc['generate_rc'][str(g['rc'])] = cc['generate_rc'].get(str(g['rc']), 0) + 1
        cc['show_rc'][str(s['rc'])] = cc['show_rc'].get(str(s['rc']), 0) + 1
        problems = []
        api_ff = t['api'].get('from_file')
        if api_ff == 'cpe':
            for name, x in (('generate', g), ('show-effective-configuration', s)):
                if x['rc'] != 1:
                    problems.append(('CLI-rejected-document-exit-status', '%s exits %s on a rejected document' % (name, x['rc'])))
                if x['stderr_len'] == 0:
                    problems.append(('CLI-rejected-document-no-message', '%s prints no error message' % name))
                if x['traceback']:
                    problems.append(('CLI-traceback-on-configuration-error', '%s prints a traceback: %s' % (name, x['stderr_tail'][-160:])))
            if r['files_made']:
                problems.append(('CLI-output-file-for-rejected-document', 'generate created %s' % r['files_made']))
        elif api_ff == 'ok':
            if s['rc'] != 0:
                problems.append(('CLI-accepted-document-show-fails', 'show-effective-configuration exits %s: %s' % (s['rc'], s['stderr_tail'][-160:])))
            if g['rc'] != 0 and not t['keys']:
                problems.append(('CLI-accepted-document-generate-fails', 'generate exits %s: %s' % (g['rc'], g['stderr_tail'][-160:])))
            if g['rc'] == 0 and not any(f.endswith('.c') for f in r['files_made']):
                problems.append(('CLI-accepted-document-no-output', 'generate exits 0 without output files'))
            # (a compile failure caused by the user's own `$c-type` string is not a deviation, as for the API)
            if r.get('compile_fail') and not t['keys'] and not t.get('odd_c_type'):
                problems.append(('CLI-generated-C-does-not-compile', '%s' % (r['compile_fail'][0],)))
        else:
            # same root cause as the API deviation: traceback / "Unknown exception" expected
            if g['traceback'] or s['traceback']:
                cli_counts['same_root_cause_tracebacks'] += 1
            for name, x in (('generate', g), ('show-effective-configuration', s)):
                if x['rc'] not in (0, 1):
                    problems.append(('CLI-exit-status-%s' % x['rc'], '%s exits %s: %s' % (name, x['rc'], x['stderr_tail'][-160:])))
            if g['rc'] != 0 and r['files_made']:
                problems.append(('CLI-output-file-for-failed-run', 'generate failed (rc %s) but created %s' % (g['rc'], r['files_made'])))
        if s['rc'] == 0 and g['rc'] != 0 and not t['keys']:
            problems.append(('CLI-show-ok-generate-fails', 'show-effective-configuration exits 0, generate exits %s' % g['rc']))
        for key, what in problems:
            n = cli_counts['deviations'].get(key, 0)
            cli_counts['deviations'][key] = n + 1
            if n == 0:
                ctx.finding(key, 'command line: ' + what, {'files': t['files'], 'latin1_encoded_binary_files': t['binary'],
                                                           'api_outcomes': t['api'], 'cli': r})

    executed = os.path.exists(pwn)
    cov.update({
        'evaluations': len(tasks) - skips,
        'distinct_nontrivial': len(hashes),
        'single_faults_enumerated': enumerated,
        'single_faults_run': len(sel),
        'multi_fault_cases': nmulti,
        'raw_corruption_cases': sum(1 for t in tasks if t['kind'] == 'raw'),
        'corpus_cases': len(corpus),
        'rule': ('generic walk of every node of every file of the base documents (%s): node kind x fault '
                 '{delete, retype to 13 values, retype to every string constant the schemas accept for a property of the same name elsewhere, 5 out-of-range numbers, unknown/self alias or inclusion, duplicated / '
                 'spliced sub-tree, 6 non-string keys}; quick tier keeps >= 1 case per (base, fault, node kind, region) '
                 'and fills the CPU budget with a seeded sample; plus seeded 2-4 fault mutants, byte-level corruptions '
                 'of the root file text and a fixed corpus; three entry points; accepted documents are generated and compiled'
                 % ', '.join(b.name for b in good)),
        'counts_fault_x_nodekind_x_outcome': counts,
        'per_dialect': per_dialect,
        'accepted_documents': accepted,
        'accepted_generated': generated,
        'accepted_compile_failures': compiled_fail,
        'compile_failures_due_to_user_supplied_c_type_string_not_counted': user_ctype_fail,
        'compile_units_compiled_distinct': len([x for x in os.listdir(os.path.join(scratch, 'seen')) if x.endswith('.res')]),
        'deviation_keys': {k: {'count': v['count'], 'by_case_kind': v['by_kind'], 'what': v['what'][:200],
                               'reproducer': {fn: tx[:1500] for fn, tx in (v.get('repro') or {}).items()}}
                           for k, v in sorted(devs.items())},
        'reproducers_minimised_at_run_time': sorted(minimised),
        'cli': cli_counts,
        'corpus': corpus_report,
        'python_tag_executes_code': executed,
        'skipped_cases': skips,
        'samples': samples,
        'wall_s': round(time.time() - t0, 1),
    })
    if executed:
        ctx.violation('C10: a `!!python/object/apply:os.mkdir` tag in a configuration file was EXECUTED while loading (regression of the '
                      'repaired defect 737aacc: _yaml_load must use the safe loader)', {'created': pwn})
        ctx.notes.append('C10 impl: _yaml_load uses the unsafe yaml.Loader: a `!!python/object/apply:os.mkdir` tag in a '
                         'configuration file was EXECUTED while loading (harmless directory inside the scratch directory)')


if __name__ == '__main__':
    import json
    import common
    tier = sys.argv[1] if len(sys.argv) > 1 and not sys.argv[1].startswith('-') else 'quick'
    seed = int(os.environ.get('VERIF_SEED', '20261001'))
    ctx = common.Ctx('C10', tier, seed)
    try:
        run(ctx)
        o = ctx.cov['impl']
        print('evaluations', o['evaluations'], 'distinct', o['distinct_nontrivial'], 'enumerated single faults',
              o['single_faults_enumerated'], 'run', o['single_faults_run'], 'wall', o['wall_s'])
        print('per dialect', json.dumps(o['per_dialect']))
        print('accepted', o['accepted_documents'], 'generated', o['accepted_generated'], 'compile failures',
              o['accepted_compile_failures'], 'distinct compile units', o['compile_units_compiled_distinct'])
        print('python tag executes', o['python_tag_executes_code'], 'skipped', o['skipped_cases'])
        print('cli', json.dumps(o['cli']))
        for k, v in o['deviation_keys'].items():
            print('DEV %-58s %5d %s | %s' % (k, v['count'], v['by_case_kind'], v['what'][:150]))
        print('corr_broken', ctx.corr_broken)
        print('notes', ctx.notes[:12])
        for a in sys.argv:
            if a.startswith('--json='):
                with open(a[7:], 'w') as f:
                    json.dump({'cov': ctx.cov, 'violations': [(w, r) for w, r, _ in ctx.violations]}, f, indent=1, default=str)
        print('violations', len(ctx.violations), 'known_hits', len(ctx.known_hits))
        for what, replay, _ in ctx.violations:
            print('VIOLATION', replay.get('finding_key'), '|', what[:300])
    finally:
        ctx.cleanup()
