"""C18 worker side: everything that runs the REAL barectf (in a process pool; barectf generation is slow,
~0.5 s per document).  No randomness here: the jobs carry the documents."""
import collections
import copy
import io
import os
import sys

OD = collections.OrderedDict

STRIP = ['Copyright (c)', 'The following code was generated', '* on ', 'barectf_gen_date =',
         'tracer_major =', 'tracer_minor =', 'tracer_patch =', 'tracer_pre =']     # tests/tracing/conftest.py

_state = {}


def _init():
    if _state:
        return
    here = os.path.dirname(os.path.dirname(os.path.abspath(__file__)))
    if here not in sys.path:
        sys.path.insert(0, here)
    import bt  # noqa: F401  (forces /repo)
    import barectf
    import barectf.config_parse_v2 as v2
    import barectf.config_parse_common as cpc
    _state.update(barectf=barectf, v2=v2, cpc=cpc, cap=[])
    orig = v2._Parser._transform_config_node

    def patched(self):
        pre = copy.deepcopy(self._root_node)
        try:
            orig(self)
        except cpc._ConfigurationParseError:
            _state['cap'].append((pre, 'cfgerr'))
            raise
        except Exception as exc:  # noqa
            _state['cap'].append((pre, 'crash:' + type(exc).__name__))
            raise
        _state['cap'].append((pre, copy.deepcopy(self._root_node)))

    v2._Parser._transform_config_node = patched


def strip(text):
    return '\n'.join(l for l in text.split('\n') if not any(p in l for p in STRIP))


def load_generate(text, dirs):
    """('ok', {file: stripped text}) | ('cfgerr', last line) | ('crash', exception name: message)."""
    b = _state['barectf']
    try:
        cfg = b.configuration_from_file(io.StringIO(text), inclusion_directories=dirs)
        cg = b.CodeGenerator(cfg)
        fs = cg.generate_c_headers() + cg.generate_c_sources() + [cg.generate_metadata_stream()]
        return 'ok', OD((f.name, strip(f.contents)) for f in fs)
    except _state['cpc']._ConfigurationParseError as exc:
        return 'cfgerr', str(exc).strip().split('\n')[-1][:300]
    except Exception as exc:  # noqa
        return 'crash', '%s: %s' % (type(exc).__name__, str(exc)[:200])


def version_of(text):
    b = _state['barectf']
    try:
        return int(b.configuration_file_major_version(io.StringIO(text)))
    except Exception as exc:  # noqa
        return 'raise:' + type(exc).__name__


def first_diff(fa, fb):
    out = []
    for name in list(fa) + [n for n in fb if n not in fa]:
        a, b = fa.get(name), fb.get(name)
        if a is None or b is None:
            out.append({'file': name, 'only_in': 'v2' if b is None else 'v3'})
            continue
        if a != b:
            la, lb = a.split('\n'), b.split('\n')
            for i in range(max(len(la), len(lb))):
                x = la[i] if i < len(la) else None
                y = lb[i] if i < len(lb) else None
                if x != y:
                    out.append({'file': name, 'line': i + 1, 'v2': x, 'v3': y})
                    break
    return out


def pair_job(job):
    """One abstract configuration: its barectf 2 document and its barectf 3 twin on the real code."""
    _init()
    _state['cap'][:] = []
    dirs = job.get('dirs') or []
    r2 = load_generate(job['v2'], dirs)
    cap = list(_state['cap'])
    r3 = load_generate(job['v3'], dirs) if job.get('v3') is not None else None
    res = {'id': job['id'], 'v2': r2[0], 'v3': None if r3 is None else r3[0], 'cap': cap,
           'ver2': version_of(job['v2']), 'ver3': None if r3 is None else version_of(job['v3']),
           'msg2': r2[1] if r2[0] != 'ok' else None, 'msg3': (r3[1] if r3 and r3[0] != 'ok' else None)}
    if r2[0] == 'ok' and r3 is not None and r3[0] == 'ok':
        res['diff'] = first_diff(r2[1], r3[1])
        res['nfiles'] = len(r2[1])
        res['bytes'] = sum(len(t) for t in r2[1].values())
    if job.get('effective') and r2[0] == 'ok' and cap and not isinstance(cap[-1][1], str):
        # the effective configuration of the barectf 2 document IS the effective configuration of the
        # converted tree (dumped with the barectf 3 tag by barectf's own dumper)
        b, cpc = _state['barectf'], _state['cpc']
        try:
            e2 = b.effective_configuration_file(io.StringIO(job['v2']), inclusion_directories=dirs)
            conv_text = cpc._yaml_dump(cpc._ConfigNodeV3(copy.deepcopy(cap[-1][1])), indent=2, default_flow_style=False,
                                       explicit_start=True, explicit_end=True)
            ec = b.effective_configuration_file(io.StringIO(conv_text), inclusion_directories=dirs)
            res['eff_same'] = e2 == ec
            res['eff_version'] = version_of(e2)
        except Exception as exc:  # noqa
            res['eff_same'] = 'raise:%s' % type(exc).__name__
    if job.get('want_files') and r2[0] == 'ok':
        res['files2'] = r2[1]
    return res


def file_job(job):
    """A corpus file under /repo/tests: load it (its directory is the inclusion directory)."""
    _init()
    _state['cap'][:] = []
    with open(job['path']) as f:
        text = f.read()
    r = load_generate(text, [os.path.dirname(job['path'])])
    return {'id': job['id'], 'path': job['path'], 'status': r[0], 'msg': r[1] if r[0] != 'ok' else None,
            'cap': list(_state['cap']), 'ver': version_of(text)}


def ft_jobs(nodes):
    """Direct calls of the real _conv_ft_node on field type nodes; only nodes that the barectf 2 field type
    schema accepts are kept.  Returns [(node, result | 'crash:..')]."""
    _init()
    v2, cpc = _state['v2'], _state['cpc']
    if 'ftparser' not in _state:
        doc = OD([('version', '2.2'), ('metadata', OD([
            ('trace', OD([('byte-order', 'le')])),
            ('streams', OD([('s', OD([
                ('packet-context-type', OD([('class', 'struct'), ('fields', OD([
                    ('packet_size', OD([('class', 'int'), ('size', 32)])),
                    ('content_size', OD([('class', 'int'), ('size', 32)]))]))])),
                ('events', OD([('e', OD([('payload-type', OD([('class', 'struct'), ('fields', OD([
                    ('x', OD([('class', 'int'), ('size', 8)]))]))]))]))]))]))]))]))])
        _state['ftparser'] = v2._Parser(io.StringIO(''), doc, True, [], False)
    p = _state['ftparser']
    out = []
    for node in nodes:
        try:
            p._schema_validator.validate(copy.deepcopy(node), 'config/2/field-type')
        except cpc._ConfigurationParseError:
            out.append((node, 'schema-invalid'))
            continue
        pre = copy.deepcopy(node)
        try:
            r = p._conv_ft_node(node)
        except cpc._ConfigurationParseError:
            r = 'cfgerr'
        except Exception as exc:  # noqa
            r = 'crash:' + type(exc).__name__
        if not _same(pre, node):
            r = 'mutated-input'
        out.append((pre, r))
    return out


def _same(a, b):
    if type(a) is not type(b):
        return False
    if isinstance(a, list):
        return len(a) == len(b) and all(_same(x, y) for x, y in zip(a, b))
    if isinstance(a, OD):
        return list(a) == list(b) and all(_same(a[k], b[k]) for k in a)
    return a == b
