"""Correspondence of the Gallina Draft-7 validator (Front/JsonSchema.v) evaluated on the
REGENERATED stores (Gen/Schemas3.v, Gen/Schemas2.v) with python-jsonschema 3.2.0 as barectf sets
it up (`_SchemaValidator` store + `_RefResolver`).  This validates the translator
tools/yaml2coq.py as well.  Also replays the `_refuted` witnesses of Props/C09.v on the real
front end.

Instances:
  captured   every (schema short id, instance) the real front end validates while loading the
             repository's test configurations (tests/config/yaml/{2,3}/configs pass+fail,
             tests/tracing/configs), with the verdict it got
  mutants    structured single mutations of captured instances, same schema id
  defs       sub-trees of captured instances against the entries of `definitions`
             (for a definition D of file F the python side validates with
             Draft7Validator(F[definitions][D], resolver=_RefResolver(base_uri=F.$id, ...)))
"""
import collections
import copy
import datetime
import glob
import json
import math
import os
import re
from concurrent.futures import ThreadPoolExecutor

import bt
from common import REPO, run_cases_v, sh, VERIF

import barectf.config_parse_common as cpc
import jsonschema

ID_PREFIX = 'https://barectf.org/schemas/'
FUEL = 2000


# ------------------------------------------------------------------ python -> Gallina

class Unrepresentable(Exception):
    pass


def coq_str(s):
    if all(32 <= ord(c) <= 126 for c in s):
        return '"' + s.replace('"', '""') + '"'
    return '(str_of_bytes [%s])' % ';'.join('%d%%nat' % b for b in s.encode('utf-8', 'surrogatepass'))


def coq_json(x):
    if x is None:
        return 'JNull'
    if x is True:
        return '(JBool true)'
    if x is False:
        return '(JBool false)'
    if isinstance(x, int):
        return '(JInt (%d)%%Z)' % x
    if isinstance(x, float):
        if math.isnan(x):
            return '(JFloat FNaN)'
        if math.isinf(x):
            return '(JFloat %s)' % ('FPInf' if x > 0 else 'FNInf')
        n, d = x.as_integer_ratio()
        return '(JFloat (FFin (%d)%%Z %d%%positive))' % (n, d)
    if isinstance(x, str):
        return '(JStr %s)' % coq_str(x)
    if isinstance(x, list):
        return '(JArr [%s])' % '; '.join(coq_json(e) for e in x)
    if isinstance(x, dict):
        items = []
        for k, v in x.items():
            if not isinstance(k, str):
                raise Unrepresentable('non-string key %r' % (k,))
            items.append('(%s, %s)' % (coq_str(k), coq_json(v)))
        return '(JObj [%s])' % '; '.join(items)
    return '(JOther %s)' % coq_str(type(x).__name__)


def canon(x):
    """hashable canonical form (distinguishes bool/int/float)"""
    if isinstance(x, dict):
        return ('d',) + tuple((repr(k), canon(v)) for k, v in x.items())
    if isinstance(x, list):
        return ('l',) + tuple(canon(e) for e in x)
    return (type(x).__name__, repr(x))


# ------------------------------------------------------------------ python verdicts

class PyValidators:
    def __init__(self):
        self.sv = {m: cpc._SchemaValidator({'config/common', 'config/%d' % m}) for m in (2, 3)}

    def keys(self, major):
        """store keys as tools/yaml2coq.py names them: roots and `definitions` members"""
        res = []
        for url, doc in self.sv[major]._store.items():
            if 'zz-verif-tmp' in url:
                continue
            short = url[len(ID_PREFIX):-len('.json')]
            res.append(short + '#')
            for name in doc.get('definitions', {}):
                res.append('%s#/definitions/%s' % (short, name))
        return sorted(res)

    def verdict(self, major, key, inst):
        """0 valid, 1 ValidationError, 3 any other exception"""
        sv = self.sv[major]
        short, frag = key.split('#', 1)
        try:
            if frag == '':
                sv._validate(inst, short)        # barectf's own path
            else:
                # a definition: barectf's own path too (its resolver, its type checker), through a
                # one-line schema `{$ref: <file>#<pointer>}` put into the validator's store
                tmp_id = ID_PREFIX + 'zz-verif-tmp.json'
                sv._store[tmp_id] = {'$id': tmp_id, '$ref': ID_PREFIX + short + '.json#' + frag}
                try:
                    sv._validate(inst, 'zz-verif-tmp')
                finally:
                    del sv._store[tmp_id]
            return 0
        except jsonschema.ValidationError:
            return 1
        except Exception:
            return 3


# ------------------------------------------------------------------ instance sources

def capture(ctx):
    """Load the repository's test configurations through the real front end, recording what
    `_SchemaValidator.validate` is asked to validate."""
    rec = []
    orig = cpc._SchemaValidator.validate

    def spy(self, instance, schema_short_id):
        major = 2 if '/2/' in schema_short_id or schema_short_id.startswith('config/2') else 3
        rec.append((major, schema_short_id + '#', copy.deepcopy(instance)))
        return orig(self, instance, schema_short_id)

    files = []
    for pat in ('tests/config/yaml/3/configs/**/*.yaml', 'tests/config/yaml/2/configs/**/*.yaml',
                'tests/tracing/configs/**/*.yaml'):
        files += sorted(glob.glob(os.path.join(REPO, pat), recursive=True))
    files = [f for f in files if not f.endswith('.inc.yaml')]
    outcome = collections.Counter()
    cpc._SchemaValidator.validate = spy
    try:
        for f in files:
            try:
                incs = [os.path.dirname(f)]
                m = re.search(r'tests/tracing/configs/([^/]+)/', f)
                if m:
                    incs.append(os.path.join(REPO, 'tests', 'tracing', 'support', m.group(1)))
                with open(f) as fh:
                    bt.barectf.configuration_from_file(fh, inclusion_directories=incs)
                outcome['loaded'] += 1
            except cpc._ConfigurationParseError:
                outcome['config_error'] += 1
            except Exception as e:   # C10's business; still useful instances
                outcome['other:' + type(e).__name__] += 1
    finally:
        cpc._SchemaValidator.validate = orig
    return rec, len(files), dict(outcome)


SCALARS = [None, True, False, 0, 1, -1, 2, 3, 8, 16, 32, 64, 65, 1 << 70, 1.0, 32.0, 0.5, float('inf'),
           float('nan'), '', 'a', 'uint', 'unsigned-integer', 'sint', 'real', 'string', 'str', 'static-array',
           'dynamic-array', 'struct', 'structure', 'uenum', 'senum', 'int', 'float', 'enum', 'array', 'le', 'be',
           'big-endian', 'bin', 'hex', 'decimal', 'dec', 'auto', 'clock', 'value', '2.2', 'a-b', '9a', 'a\n',
           'a\nb', '_x9', 'struct\n', 'dynamic', 'utf8', 'é', '79e49040-21b5-42d4-a873-677261696e65',
           '79e49040-21b5-42d4-a873-677261696e65\n', '79E49040-21b5-42d4-a873-677261696e65', [], {},
           [1, 2], [1], [1, 2, 3], ['a'], {'a': 1}, {'field-type': {'class': 'str'}},
           {'class': 'uint', 'size': 8}, {'class': 'string'}, [[1, 2]], [{'a': {'field-type': {'class': 'str'}}}],
           datetime.date(2020, 1, 2), b'ab']
NEWKEYS = ['zzz', 'class', 'size', 'length', 'alignment', 'members', 'mappings', 'element-field-type',
           'field-type', '$include', '$inherit', 'required', 'a-b', '9', 'struct', 'a\n', 'fields', 'signed',
           'byte-order', 'type', 'name', 'property', 'timestamp_end', 'timestamp_begin', '$return-ctype',
           'return-ctype', 'log-levels', '$log-levels', 'native-byte-order', 'trace-byte-order', 'é']


def nodes(x, path=()):
    yield path, x
    if isinstance(x, dict):
        for k, v in x.items():
            yield from nodes(v, path + (k,))
    elif isinstance(x, list):
        for i, v in enumerate(x):
            yield from nodes(v, path + (i,))


def get(x, path):
    for p in path:
        x = x[p]
    return x


def mutate(rng, inst):
    """one structured mutation of a deep copy; returns (mutant, description) or None"""
    m = copy.deepcopy(inst)
    ns = list(nodes(m))
    path, node = ns[rng.randrange(len(ns))]
    op = rng.choice(['delete', 'retype', 'retype', 'addkey', 'number', 'rename', 'dupitem', 'splice'])
    parent = get(m, path[:-1]) if path else None
    if op == 'delete' and path:
        del parent[path[-1]]
    elif op == 'retype' and path:
        parent[path[-1]] = copy.deepcopy(rng.choice(SCALARS))
    elif op == 'addkey' and isinstance(node, dict):
        node[rng.choice(NEWKEYS)] = copy.deepcopy(rng.choice(SCALARS))
    elif op == 'number' and isinstance(node, int) and not isinstance(node, bool) and path:
        parent[path[-1]] = rng.choice([node + 1, node - 1, -node, 0, 1, 64, 65, node * 2, float(node)])
    elif op == 'rename' and path and isinstance(parent, dict):
        v = parent.pop(path[-1])
        parent[rng.choice(NEWKEYS + [str(path[-1]) + 'x', str(path[-1]) + '\n'])] = v
    elif op == 'dupitem' and isinstance(node, list) and node:
        node.append(copy.deepcopy(rng.choice(node)))
    elif op == 'splice' and path:
        parent[path[-1]] = copy.deepcopy(rng.choice(ns)[1])
    else:
        return None
    return m, '%s at /%s' % (op, '/'.join(map(str, path)))


# ------------------------------------------------------------------ evaluation in Coq

def run_shards(ctx, pairs, per_shard=140):
    """pairs: list of (major, key, instance, code).  Returns (evaluated, [disagreeing pairs])."""
    shards = []
    for major in (3, 2):
        sub = [p for p in pairs if p[0] == major]
        shards += [(major, sub[i:i + per_shard]) for i in range(0, len(sub), per_shard)]

    def run(ix):
        major, sub = shards[ix]
        body = ['From Coq Require Import List String ZArith.', 'Import ListNotations.',
                'From BT.Front Require Import Json JsonSchema.', 'From BT.Gen Require Schemas%d.' % major,
                'Open Scope string_scope.', 'Definition cases : list js_case := [']
        body.append(';\n'.join('(%s, %s, %d%%nat)' % (coq_str(k), coq_json(inst), code) for (_, k, inst, code) in sub))
        body.append('].')
        body.append('Eval vm_compute in (failing (js_case_ok Schemas%d.store %d%%nat) 0%%nat cases).' % (major, FUEL))
        return run_cases_v('c09corr_%d' % ix, '\n'.join(body) + '\n', ctx.scratch, timeout=900)

    n, bad = 0, []
    with ThreadPoolExecutor(max_workers=14) as ex:
        for ix, (rc, out) in enumerate(ex.map(run, range(len(shards)))):
            m = re.search(r'=\s*\[(.*?)\]\s*:\s*list nat', out, re.S)
            if rc != 0 or not m:
                ctx.corr_broken.append('C09 validator evaluation failed on shard %d: %s' % (ix, out[-400:]))
                continue
            n += len(shards[ix][1])
            for t in [t for t in m.group(1).replace('\n', ' ').split(';') if t.strip()]:
                bad.append(shards[ix][1][int(t.strip())])
    return n, bad


def coq_verdict(ctx, major, key, inst):
    """evaluate one pair in Coq; returns the result code or None"""
    body = ['From Coq Require Import List String ZArith.', 'Import ListNotations.',
            'From BT.Front Require Import Json JsonSchema.', 'From BT.Gen Require Schemas%d.' % major,
            'Open Scope string_scope.',
            'Eval vm_compute in (res_code (validate_key Schemas%d.store %d%%nat %s %s)).' % (major, FUEL, coq_str(key), coq_json(inst))]
    rc, out = run_cases_v('c09one', '\n'.join(body) + '\n', ctx.scratch, timeout=300)
    m = re.search(r'=\s*(\d+)\s*:\s*nat', out)
    return int(m.group(1)) if rc == 0 and m else None


# ------------------------------------------------------------------ translator checks

def translator_checks(ctx):
    """determinism of the translator and fail-closed behaviour on a doctored copy of the schemas"""
    tool = os.path.join(VERIF, 'tools', 'yaml2coq.py')
    d1, d2 = os.path.join(ctx.scratch, 'gen1'), os.path.join(ctx.scratch, 'gen2')
    env = dict(os.environ, PYTHONPATH=REPO, PYTHONHASHSEED='1')
    rc1, o1 = sh(['/venv/bin/python', '-W', 'ignore', tool, REPO, d1], env=env)
    env['PYTHONHASHSEED'] = '2'
    rc2, o2 = sh(['/venv/bin/python', '-W', 'ignore', tool, REPO, d2], env=env)
    res = {'deterministic': False, 'same_as_build': False, 'fail_closed': {}}
    if rc1 == 0 and rc2 == 0:
        same = all(open(os.path.join(d1, n)).read() == open(os.path.join(d2, n)).read() for n in ('Schemas3.v', 'Schemas2.v'))
        res['deterministic'] = same
        gen = os.path.join(VERIF, 'coq', 'theories', 'Gen')
        res['same_as_build'] = all(open(os.path.join(d1, n)).read() == open(os.path.join(gen, n)).read() for n in ('Schemas3.v', 'Schemas2.v'))
    if not (res['deterministic'] and res['same_as_build']):
        ctx.corr_broken.append('yaml2coq.py output is not deterministic or differs from the Gen files of this build')
    # fail closed: a fake repo whose schemas carry an unsupported construct
    import shutil
    for name, (rel, old, new) in {
        'unknown_keyword': ('config/common/common.yaml', '    minimum: 1\n    maximum: 64', '    minimum: 1\n    multipleOf: 2\n    maximum: 64'),
        'unknown_pattern': ('config/common/common.yaml', "pattern: '^[A-Za-z_][A-Za-z0-9_]*$'", "pattern: '^[A-Za-z][A-Za-z0-9_]*$'"),
        'float_constant': ('config/3/field-type.yaml', '              - 32\n', '              - 32.5\n'),
    }.items():
        fake = os.path.join(ctx.scratch, 'fake_' + name)
        shutil.copytree(os.path.join(REPO, 'barectf', 'schemas'), os.path.join(fake, 'barectf', 'schemas'))
        p = os.path.join(fake, 'barectf', 'schemas', rel)
        txt = open(p).read()
        if old not in txt:
            res['fail_closed'][name] = 'not applicable (text not found)'
            continue
        open(p, 'w').write(txt.replace(old, new, 1))
        rc, out = sh(['/venv/bin/python', '-W', 'ignore', tool, fake, os.path.join(fake, 'out')], env=env)
        res['fail_closed'][name] = 'rc=%d %s' % (rc, out.strip().splitlines()[-1][:160] if out.strip() else '')
        if rc == 0:
            ctx.corr_broken.append('yaml2coq.py did not fail closed on %s' % name)
    return res


# ------------------------------------------------------------------ main

def run(ctx):
    pv = PyValidators()
    rng = ctx.rng
    rec, nfiles, load_outcomes = capture(ctx)
    pairs, seen, skipped = [], set(), 0
    stats = collections.Counter()

    def add(major, key, inst, src):
        nonlocal skipped
        try:
            coq_json(inst)
        except Unrepresentable:
            skipped += 1
            return False
        h = (major, key, canon(inst))
        if h in seen:
            return False
        seen.add(h)
        code = pv.verdict(major, key, inst)
        pairs.append((major, key, inst, code))
        stats['%s:%d' % (src, code)] += 1
        return True

    # (a) captured: all distinct, capped per schema id
    per_id_cap = ctx.pick(45, 400)
    by_id = collections.defaultdict(list)
    for major, key, inst in rec:
        by_id[(major, key)].append(inst)
    captured = []
    for (major, key) in sorted(by_id):
        insts, uniq, s = by_id[(major, key)], [], set()
        for i in insts:
            c = canon(i)
            if c not in s:
                s.add(c)
                uniq.append(i)
        rng.shuffle(uniq)
        # keep the failing ones first (they are rare)
        uniq.sort(key=lambda i: pv.verdict(major, key, i) == 0)
        for i in uniq[:per_id_cap]:
            if add(major, key, i, 'captured'):
                captured.append((major, key, i))
    # (b) mutants
    n_mut = ctx.pick(600, 12000)
    tries = 0
    while sum(v for k, v in stats.items() if k.startswith('mutant')) < n_mut and tries < n_mut * 6:
        tries += 1
        major, key, inst = captured[rng.randrange(len(captured))]
        r = mutate(rng, inst)
        if r is not None:
            add(major, key, r[0], 'mutant')
    # (c) sub-trees against definitions
    n_def = ctx.pick(400, 8000)
    subtrees = {2: [], 3: []}
    for major, key, inst in captured:
        if key in ('config/3/config#', 'config/2/config#', 'config/3/config-pre-field-type-expansion#'):
            for _, sub in nodes(inst):
                if isinstance(sub, (dict, list)):
                    subtrees[major].append(sub)
    tries, valid_keys = 0, {}
    def_keys = {m: [k for k in pv.keys(m) if '/definitions/' in k] for m in (2, 3)}
    while sum(v for k, v in stats.items() if k.startswith('defs')) < n_def and tries < n_def * 6:
        tries += 1
        major = rng.choice([3, 3, 2])
        if not subtrees[major]:
            continue
        ix = rng.randrange(len(subtrees[major]))
        sub = subtrees[major][ix]
        if (major, ix) not in valid_keys:
            valid_keys[(major, ix)] = [k for k in def_keys[major] if pv.verdict(major, k, sub) == 0]
        # mostly pair a node with a definition it satisfies, then (half of the time) break it
        if valid_keys[(major, ix)] and rng.random() < 0.7:
            key = rng.choice(valid_keys[(major, ix)])
        else:
            key = rng.choice(def_keys[major])
        if rng.random() < 0.55:
            r = mutate(rng, sub)
            if r is None:
                continue
            sub = r[0]
        add(major, key, sub, 'defs')
    # scalars against every key (cheap, catches type / enum / pattern slips)
    for major in (3, 2):
        for key in pv.keys(major):
            for s in rng.sample(SCALARS, ctx.pick(3, 25)):
                add(major, key, copy.deepcopy(s), 'scalar')

    # targeted: malformed sub-schemas (a `required:` list misplaced under `properties:`) and the
    # unresolvable `#/definitions/dynamic-array-ft` reference; integral / special floats
    for major, key, inst in [
        (3, 'config/3/config-pre-field-type-expansion#', {'required': 1, 'trace': {'type': {'data-stream-types': {}}}}),
        (3, 'config/3/config-pre-field-type-expansion#', {'trace': {'type': {'required': [], 'data-stream-types': {}}}}),
        (3, 'config/3/config-pre-log-level-alias-sub#', {'trace': {'type': {'required': 5, 'data-stream-types': {}}}}),
        (3, 'config/3/config-pre-field-type-expansion#', {'required': 1}),
        (3, 'config/3/field-type#/definitions/ft', {'class': 'dynamic-array'}),
        (3, 'config/3/field-type#/definitions/ft', {'class': {'class': 'x', 'element-field-type': {'class': 'str'}}}),
        (3, 'config/3/field-type#/definitions/dynamic-array-ft-class-prop', {'class': 'dynamic-array', 'element-field-type': {'class': 'str'}}),
        (3, 'config/3/field-type#/definitions/ft', {'class': 'uint', 'size': 8.0}),
        (3, 'config/3/field-type#/definitions/ft', {'class': 'uint', 'size': 8.5}),
        (3, 'config/3/field-type#/definitions/ft', {'class': 'real', 'size': 32.0}),
        (3, 'config/3/field-type#/definitions/ft', {'class': 'uint', 'size': 8, 'alignment': float('inf')}),
        (3, 'config/3/field-type#/definitions/ft', {'class': 'uint', 'size': float('nan')}),
        (2, 'config/2/field-type#/definitions/ft', {'class': 'int', 'size': 8.0, 'align': 1.0}),
    ]:
        add(major, key, inst, 'targeted')

    n_eval, bad = run_shards(ctx, pairs)
    if bad:
        ctx.corr_broken.append('Gallina validator on the regenerated store disagrees with python-jsonschema on %d of %d (schema, instance) pairs' % (len(bad), n_eval))
        for (major, key, inst, code) in bad[:5]:
            got = coq_verdict(ctx, major, key, inst)
            ctx.notes.append('validator disagreement: major=%d key=%s python=%d coq=%s instance=%s' % (
                major, key, code, got, json.dumps(inst, default=repr)[:600]))
    keys_hit = collections.Counter((m, k) for (m, k, _, _) in pairs)
    all_keys = [(m, k) for m in (2, 3) for k in pv.keys(m)]
    tr = translator_checks(ctx)
    ctx.cov.update({
        'evaluations': n_eval,
        'distinct_nontrivial': len(seen),
        'rule': 'distinct (store key, instance) pairs; verdict of python-jsonschema 3.2.0 through barectf\'s _SchemaValidator/_RefResolver '
                'compared with validate_key on the regenerated store under vm_compute (fuel %d)' % FUEL,
        'corr_validator': {
            'test_configs_loaded_for_capture': nfiles, 'capture_load_outcomes': load_outcomes,
            'pairs_by_source_and_python_verdict(0 valid,1 invalid,3 other exception)': dict(sorted(stats.items())),
            'store_keys_total': len(all_keys), 'store_keys_hit': len(keys_hit),
            'store_keys_not_hit': [k for k in all_keys if k not in keys_hit][:20],
            'skipped_non_string_keys': skipped,
            'disagreements': len(bad),
            'translator': tr,
        },
        'samples': [{'major': m, 'key': k, 'python_verdict': c, 'instance': json.dumps(i, default=repr)[:300]}
                    for (m, k, i, c) in pairs[:: max(1, len(pairs) // 6)][:6]],
    })
    from props import c09_witness
    c09_witness.run(ctx)
