"""C10: the front end is total (partial: see LEVEL_NOTE).

Proof part: Props/C10.v - the access skeleton of _create_config for field types
(Front/CreateConfig.v) cannot crash on a node accepted by the regenerated field-type schema, for
the classes where that holds; `_refuted` witnesses where it does not (S4, S14).
Validated part (c10_impl): every single structural fault on valid v2/v3 base documents, random
multi-fault mutants, raw byte corruption; outcome classes; generation + compilation of every
accepted document; CLI sample.
"""
from common import prepare

LEVEL_NOTE = ('PROVED: create_ft access skeleton total on schema-valid field type nodes (classes listed in '
              'Props/C10.v). VALIDATED ONLY: YAML text -> tree, inclusion/alias/inheritance stages, the CLI, '
              'generation and compilation.')


def run(ctx):
    prepare(ctx)
    from props import c10_model, c10_impl
    c10_model.run(ctx)
    c10_impl.run(ctx)
