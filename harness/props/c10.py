"""C10: the front end is total (partial: see LEVEL_NOTE).

Proof part: Props/C10.v - the access skeleton of _create_config for field types
(Front/CreateConfig.v) cannot crash on a node accepted by the regenerated field-type schema, for
the classes where that holds; `_refuted` witnesses where it does not (S4, S14).
Validated part (c10_impl): every single structural fault on valid v2/v3 base documents, random
multi-fault mutants, raw byte corruption; outcome classes; generation + compilation of every
accepted document; CLI sample.
"""
from common import prepare

LEVEL_NOTE = ('PARTIAL. PROVED (Coq): the access skeleton of _create_fts (Front/CreateConfig.create_ft, tied to the real '
              '_normalize_props + _create_fts by correspondence on schema-valid nodes) never crashes on a field type tree that is '
              'accepted by the regenerated final schema and has the documented shape; string field types: the schema alone suffices; '
              '`_refuted` crash witnesses for S14, S4, null enum mappings, float alignment, non-identifier member names, each replayed. '
              'VALIDATED ONLY (c10_impl, real code): YAML text -> tree, inclusion / alias / inheritance / v2 conversion stages, the rest '
              'of _create_config (clock types, data stream types, options), the CLI exit status / traceback / output files, '
              'generation and compilation of every accepted document.')


def run(ctx):
    prepare(ctx)
    ctx.notes.insert(0, LEVEL_NOTE)
    from props import c10_model, c10_impl
    c10_model.run(ctx)
    c10_impl.run(ctx)
