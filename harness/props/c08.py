"""C08: bit-exact integer encoding.  Proof: Props/C08.v (symbolic-bit reflection).
Tie: the generated barectf-bitfield.h is compiled and run on every control case
(byte order x start x len x carrier) with sampled values/windows; results compared with
(a) the Coq model bf_write_num evaluated by vm_compute and (b) a Python transcription of the
specification (used as the oracle for the search of a concrete failing input)."""
import os
import subprocess
from concurrent.futures import ThreadPoolExecutor

import bt
from common import prepare, run_cases_v, sh, VERIF


def spec(bo, W, sg, start, length, v, win):
    """CTF bit order specification (independent Python transcription)."""
    out = list(win)
    # value as W-bit pattern, extended by sign / zero beyond W
    def vbit(i):
        if i < W:
            return (v >> i) & 1
        return ((v >> (W - 1)) & 1) if sg else 0
    for p in range(start, start + length):
        j = p // 8
        if bo == 'le':
            k = p % 8
            i = p - start
        else:
            k = 7 - (p % 8)
            i = length - 1 - (p - start)
        out[j] = (out[j] & ~(1 << k)) | (vbit(i) << k)
    return out


def gen_values(rng, W, n):
    vals = [0, (1 << W) - 1, 1 << (W - 1), (1 << (W - 1)) - 1, 1, 0x5555555555555555 & ((1 << W) - 1),
            0xAAAAAAAAAAAAAAAA & ((1 << W) - 1)]
    rng.shuffle(vals)
    res = []
    for i in range(n):
        res.append(vals[i] if i < len(vals) and rng.random() < 0.5 else rng.getrandbits(W))
    return res


def run(ctx):
    prepare(ctx)
    k_c = ctx.pick(8, 200)      # values per control case run on the C and the Python spec
    k_coq = ctx.pick(1, 4)      # of which evaluated by the Coq model
    exes = {}
    for bo in ('le', 'be'):
        d = os.path.join(ctx.scratch, bo)
        bt.generate(bt.simple_config(bo, unknown_native=(bo == 'be')), d)
        for variant, flags in (('plain', ['-O1']), ('ubsan', ['-O1', '-std=gnu90', '-fsanitize=undefined', '-fno-sanitize-recover=all'])):
            exe = os.path.join(d, 'bf_' + variant)
            rc, out = bt.cc(flags + ['-DBO_' + bo.upper(), '-I', d, os.path.join(VERIF, 'harness/c/bf_driver.c'), '-o', exe], cwd=d)
            if rc != 0:
                ctx.violation('generated bitfield header does not compile in the driver (%s, %s): %s' % (bo, variant, out[-400:]),
                              {'byte_order': bo, 'compiler_output': out[-2000:]})
                return
            exes[(bo, variant)] = exe
    cases = []
    for bo in ('le', 'be'):
        for W in (8, 16, 32, 64):
            for sg in (0, 1):
                for start in range(8):
                    for length in range(1, 65):
                        nb = (start + length + 7) // 8
                        for v in gen_values(ctx.rng, W, k_c):
                            mode = ctx.rng.randrange(4)
                            if mode == 0:
                                win = [0] * nb
                            elif mode == 1:
                                win = [255] * nb
                            else:
                                win = [ctx.rng.randrange(256) for _ in range(nb)]
                            cases.append((bo, W, sg, start, length, v, win))
    outs = {}
    for bo in ('le', 'be'):
        sub = [c for c in cases if c[0] == bo]
        text = ''.join('%d %d %d %d %x %d %s\n' % (W, sg, st, ln, v, len(win), ' '.join('%x' % b for b in win))
                       for (_, W, sg, st, ln, v, win) in sub)
        for variant in ('plain', 'ubsan'):
            p = subprocess.run([exes[(bo, variant)]], input=text, capture_output=True, text=True, timeout=600)
            lines = p.stdout.split()
            if p.returncode != 0 or len(lines) != len(sub):
                idx = len(lines)
                bad = sub[min(idx, len(sub) - 1)]
                ctx.violation('bit-field macro run aborted (%s build, rc=%s): %s' % (variant, p.returncode, p.stderr[-300:]),
                              {'case': bad, 'stderr': p.stderr[-1500:], 'variant': variant})
                return
            outs[(bo, variant)] = [[int(l[i:i + 2], 16) for i in range(0, len(l), 2)] for l in lines]
    # oracle: specification vs implementation
    nviol = 0
    results = []
    for bo in ('le', 'be'):
        sub = [c for c in cases if c[0] == bo]
        for c, o1, o2 in zip(sub, outs[(bo, 'plain')], outs[(bo, 'ubsan')]):
            exp = spec(*c)
            results.append((c, o1))
            if o1 != exp or o2 != exp:
                nviol += 1
                if nviol <= 3:
                    ctx.violation('bit-field write differs from the CTF specification: bo=%s W=%d sg=%d start=%d len=%d v=%#x' % c[:6],
                                  {'byte_order': c[0], 'carrier_bits': c[1], 'signed': c[2], 'start': c[3], 'len': c[4],
                                   'value': c[5], 'old_window': c[6], 'impl_window': o1, 'impl_window_ubsan': o2, 'spec_window': exp})
    # correspondence: Coq model on a sub-sample (first k_coq values of every control case)
    seen, sample = {}, []
    for c, o in results:
        key = c[:5]
        seen[key] = seen.get(key, 0) + 1
        if seen[key] <= k_coq:
            sample.append((c, o))
    shards = [sample[i:i + 1024] for i in range(0, len(sample), 1024)]

    def run_shard(ix):
        body = ['From Coq Require Import List NArith Bool.', 'Import ListNotations.',
                'From BT.C Require Import Sym Bitfield BitfieldNum.', 'Open Scope N_scope.',
                'Definition cases : list bf_case := [']
        rows = []
        for (bo, W, sg, st, ln, v, win), o in shards[ix]:
            rows.append('(%s, %d%%nat, %s, %d%%nat, %d%%nat, %d, [%s], [%s])' % (
                bo.upper(), W, 'true' if sg else 'false', st, ln, v,
                ';'.join(map(str, win)), ';'.join(map(str, o))))
        body.append(';\n'.join(rows))
        body.append('].')
        body.append('Eval vm_compute in (failing bf_case_ok 0%nat cases).')
        return run_cases_v('c08_%d' % ix, '\n'.join(body) + '\n', ctx.scratch, timeout=1500)

    import re
    ncoq, disagree = 0, []
    with ThreadPoolExecutor(max_workers=12) as ex:
        for ix, (rc, out) in enumerate(ex.map(run_shard, range(len(shards)))):
            m = re.search(r'=\s*\[(.*?)\]\s*:\s*list nat', out, re.S)
            if rc != 0 or not m:
                ctx.corr_broken.append('C08 model evaluation failed on shard %d: %s' % (ix, out[-300:]))
                continue
            ncoq += len(shards[ix])
            for t in [t for t in m.group(1).replace('\n', ' ').split(';') if t.strip()]:
                disagree.append(shards[ix][int(t.strip().replace('%nat', ''))])
    if disagree:
        ctx.corr_broken.append('Coq model bf_write_num / spec_write_num disagrees with the compiled macro on %d cases' % len(disagree))
        ctx.notes.append('first disagreeing case: %r' % (disagree[0],))
    ctx.cov.update({
        'evaluations': len(cases) * 2,
        'distinct_nontrivial': len(set((c[:6], tuple(c[6])) for c in cases)),
        'rule': 'every control case (2 byte orders x 8 start offsets x 64 lengths x 8 carrier types = 8192) x %d sampled (value, old window) pairs; run on the compiled generated header (plain and UBSan builds, window between guard pages); distinct = distinct (control, value, window) tuples' % k_c,
        'exhaustive': False,
        'control_cases': 8192,
        'coq_model_cases': ncoq,
        'coq_model_disagreements': len(disagree),
        'spec_oracle_violations': nviol,
        'samples': [{'bo': c[0], 'W': c[1], 'signed': c[2], 'start': c[3], 'len': c[4], 'value': c[5], 'old': c[6], 'impl': o}
                    for c, o in results[:: max(1, len(results) // 6)][:6]],
    })
