"""C12 helpers: YAML trees as the barectf parsers see them (OrderedDict / list / scalars),
their Gallina rendering (BT.Front.Yaml), generators of (base, overlay) pairs, and a Python
transcription of the executable specification `patch_spec` of Front/Patch.v, itself written only
from docs/modules/yaml/partials/patching-rules-table.adoc."""
import collections
import copy

OD = collections.OrderedDict


# ------------------------------------------------------------------ tree utilities

def kind(v):
    if v is None:
        return 'null'
    if type(v) is bool:
        return 'bool'
    if type(v) is int:
        return 'int'
    if type(v) is float:
        return 'float'
    if type(v) is str:
        return 'str'
    if type(v) is list:
        return 'seq'
    if type(v) is OD:
        return 'map'
    raise TypeError(type(v))


def depth(v):
    if type(v) is list:
        return 1 + max([depth(x) for x in v] or [0])
    if type(v) is OD:
        return 1 + max([depth(x) for x in v.values()] or [0])
    return 0


def size(v):
    if type(v) is list:
        return 1 + sum(size(x) for x in v)
    if type(v) is OD:
        return 1 + sum(size(x) for x in v.values())
    return 1


def same(a, b):
    """Equality that distinguishes bool/int/float and the order of mapping keys."""
    if type(a) is not type(b):
        return False
    if type(a) is list:
        return len(a) == len(b) and all(same(x, y) for x, y in zip(a, b))
    if type(a) is OD:
        return list(a.keys()) == list(b.keys()) and all(same(a[k], b[k]) for k in a)
    if type(a) is float:
        return repr(a) == repr(b)
    return a == b


def coq_str(s):
    assert all(32 <= ord(c) < 127 for c in s), s
    return '"' + s.replace('"', '""') + '"'


def to_coq(v):
    t = type(v)
    if v is None:
        return 'YNull'
    if t is bool:
        return '(YBool %s)' % ('true' if v else 'false')
    if t is int:
        return '(YInt (%d)%%Z)' % v
    if t is float:
        return '(YFloat %s)' % coq_str(repr(v))
    if t is str:
        return '(YStr %s)' % coq_str(v)
    if t is list:
        return '(YSeq [%s])' % '; '.join(to_coq(x) for x in v)
    if t is OD:
        return '(YMap [%s])' % '; '.join('(%s, %s)' % (coq_str(k), to_coq(x)) for k, x in v.items())
    raise TypeError(t)


def to_jsonable(v):
    """For replay files: mappings as lists of pairs so that the key order survives."""
    if type(v) is OD:
        return {'map': [[k, to_jsonable(x)] for k, x in v.items()]}
    if type(v) is list:
        return {'seq': [to_jsonable(x) for x in v]}
    if type(v) is float:
        return {'float': repr(v)}
    return v


def to_plain(v):
    """dict/list rendering for the `samples` of the evidence."""
    if type(v) is OD:
        return {k: to_plain(x) for k, x in v.items()}
    if type(v) is list:
        return [to_plain(x) for x in v]
    return v


# ------------------------------------------------------------------ the documented rules
# Transcription of patching-rules-table.adoc ("A patching B"), the same text Patch.v/patch_spec
# transcribes.  Undefined (returns UNDEF) where the table says nothing: a `members` sequence
# (barectf 3) that is not an ordered mapping.

class Undefined(Exception):
    pass


# A key `members` whose two sequences contain no mapping at all cannot be the `members` property of
# a structure field type object (e.g. an enumeration mapping labelled "members" with its ranges):
# the plain sequence rule applies.  Patch.v/patch_spec leaves that case undefined (not well formed).
strict_context = True


def omap_of(seq):
    res = OD()
    for it in seq:
        if type(it) is not OD or len(it) != 1:
            raise Undefined('members item is not a single-entry mapping')
        (k, v), = it.items()
        if k in res:
            raise Undefined('repeated member name')
        res[k] = v
    return res


def spec_value(v3, key, a, b):
    """Value of property `key` of the effective object when A has `a` and B has `b`."""
    if type(a) is OD:
        if type(b) is OD:
            return spec_entries(v3, a, b)
        return copy.deepcopy(a)
    if type(a) is list:
        if type(b) is list:
            if v3 and key == 'members' and (any(type(x) is OD for x in a + b) or not strict_context):
                # the `members` property of a structure field type (its items are mappings)
                am, bm = omap_of(a), omap_of(b)
                return [OD([(k, v)]) for k, v in spec_entries(v3, am, bm).items()]
            return copy.deepcopy(b) + copy.deepcopy(a)
        return copy.deepcopy(a)
    return a        # null, boolean, integer, string (float): replace


def spec_entries(v3, A, B):
    res = OD()
    for k, b in B.items():                  # B's properties, patched where A has them
        res[k] = spec_value(v3, k, A[k], b) if k in A else copy.deepcopy(b)
    for k, a in A.items():                  # A's property doesn't exist in B: keep A's property
        if k not in B:
            res[k] = copy.deepcopy(a)
    return res


def patch_spec(v3, A, B):
    assert type(A) is OD and type(B) is OD
    return spec_entries(v3, A, B)


def wf(v3, v):
    """No repeated key (automatic for OrderedDict) and every barectf 3 `members` sequence is an
    ordered mapping — the domain on which the documented rules say what the result is."""
    if type(v) is list:
        return all(wf(v3, x) for x in v)
    if type(v) is OD:
        for k, x in v.items():
            if not wf(v3, x):
                return False
            if v3 and k == 'members' and type(x) is list:
                try:
                    omap_of(x)
                except Undefined:
                    return False
        return True
    return True


# ------------------------------------------------------------------ generators

KEYS = ['a', 'b', 'c', 'members', 'class', 'size', 'x-y', '$k', 'fields', 'm']
NAMES = ['u', 'v', 'w', 'members', 'z']
KINDS = ['null', 'bool', 'int', 'float', 'str', 'seq', 'map']
STRS = ['s', 'uint8', 'it"q', '', 'members']


class Gen:
    """All randomness comes from the rng handed in (ctx.rng)."""

    def __init__(self, rng):
        self.rng = rng
        self.stats = collections.Counter()

    def scalar(self, k=None):
        r = self.rng
        k = k or r.choice(KINDS[:5])
        if k == 'null':
            return None
        if k == 'bool':
            return r.random() < 0.5
        if k == 'int':
            return r.choice([0, 1, -1, 7, 255, -(2 ** 63), 2 ** 64 - 1, r.randrange(-1000, 1000)])
        if k == 'float':
            return r.choice([0.5, -1.25, 3.0, 1e-3])
        return r.choice(STRS)

    def value(self, d, k=None, key=None):
        """A tree of kind k (random when None) and depth <= d."""
        r = self.rng
        if k is None:
            k = r.choice(KINDS if d > 0 else KINDS[:5])
        if k == 'seq':
            if d <= 0:
                return []
            if key == 'members' and r.random() < 0.8:
                return self.members(d - 1)
            return [self.value(d - 1) for _ in range(r.randrange(0, 4))]
        if k == 'map':
            if d <= 0:
                return OD()
            res = OD()
            for kk in r.sample(KEYS, r.randrange(0, 6)):
                res[kk] = self.value(d - 1, key=kk)
            return res
        return self.scalar(k)

    def member_item(self, d, names, malformed):
        """One item of a `members` list."""
        r = self.rng
        x = r.random()
        if malformed and x < 0.10:
            return self.scalar()                                   # not a mapping
        if malformed and x < 0.15 and d > 0:
            return [self.value(d - 1) for _ in range(r.randrange(0, 3))]   # a sequence item
        if malformed and x < 0.22:
            return OD()                                            # empty mapping
        if malformed and x < 0.34:                                 # several keys
            res = OD()
            for n in r.sample(NAMES, r.randrange(2, 4)):
                res[n] = self.value(max(d - 1, 0))
            return res
        return OD([(r.choice(names), self.value(max(d - 1, 0), r.choice(['str', 'map', 'map', 'int', 'null', 'seq']) if d > 0 else 'str'))])

    def members(self, d, malformed=None, distinct=None):
        r = self.rng
        if malformed is None:
            malformed = r.random() < 0.35
        if distinct is None:
            distinct = (not malformed) and r.random() < 0.8
        n = r.randrange(0, 5)
        if distinct:
            names = r.sample(NAMES, min(n, len(NAMES)))
            return [self.member_item(d, [nm], False) for nm in names]
        return [self.member_item(d, NAMES, malformed) for _ in range(n)]

    def pair(self, d):
        """(base mapping, overlay mapping), depth <= d each, with overlapping keys and every
        combination of kinds on the common keys."""
        r = self.rng
        base, olay = OD(), OD()
        nb, no = r.randrange(0, 6), r.randrange(0, 6)
        bkeys = r.sample(KEYS, nb)
        if nb and 'members' not in bkeys and r.random() < 0.3:
            bkeys[r.randrange(nb)] = 'members'
        common = [k for k in bkeys if r.random() < (0.85 if k == 'members' else 0.6)]
        fresh = [k for k in KEYS if k not in bkeys]
        r.shuffle(fresh)
        okeys = (common + fresh)[:no] if r.random() < 0.7 else (fresh + common)[:no]
        r.shuffle(okeys)
        vals = {}
        for k in bkeys:
            if k in okeys and d > 0:
                bk, ok = self.clash_kinds(k)
                if d <= 0:
                    bk, ok = r.choice(KINDS[:5]), r.choice(KINDS[:5])
                if bk == 'map' and ok == 'map':
                    vals[k] = self.pair(d - 1)
                elif bk == 'seq' and ok == 'seq' and k == 'members':
                    vals[k] = self.members_pair(d - 1)
                else:
                    vals[k] = (self.value(d - 1, bk, key=k), self.value(d - 1, ok, key=k))
            else:
                vals[k] = (self.value(max(d - 1, 0), key=k), self.value(max(d - 1, 0), key=k))
        for k in bkeys:
            base[k] = vals[k][0]
        for k in okeys:
            olay[k] = vals[k][1] if k in vals else self.value(max(d - 1, 0), key=k)
        return base, olay

    def clash_kinds(self, key):
        r = self.rng
        x = r.random()
        if key == 'members' and x < 0.7:
            return 'seq', 'seq'
        if x < 0.30:
            return 'map', 'map'
        if x < 0.42:
            return 'seq', 'seq'
        return r.choice(KINDS), r.choice(KINDS)

    def members_pair(self, d):
        """Two `members` lists with shared names; well formed most of the time."""
        r = self.rng
        mal = r.random() < 0.35
        if mal:
            return self.members(d, True, False), self.members(d, r.random() < 0.7, False)
        bn = r.sample(NAMES, r.randrange(0, len(NAMES) + 1))
        on = r.sample(NAMES, r.randrange(0, len(NAMES) + 1))
        dup = r.random() < 0.15
        if dup and bn:
            bn = bn + [r.choice(bn)]
        if dup and on and r.random() < 0.5:
            on = on + [r.choice(on)]
        b, o = [], []
        common = {}
        for n in set(bn) & set(on):
            x = r.random()
            if x < 0.5 and d > 1:
                common[n] = self.pair(d - 1)
            else:
                common[n] = (self.value(max(d - 1, 0)), self.value(max(d - 1, 0)))
        for n in bn:
            b.append(OD([(n, copy.deepcopy(common[n][0]) if n in common else self.value(max(d - 1, 0)))]))
        for n in on:
            o.append(OD([(n, copy.deepcopy(common[n][1]) if n in common else self.value(max(d - 1, 0)))]))
        return b, o


def clash_stats(v3, base, olay, stats):
    """Count, over the whole recursion, the (base kind, overlay kind) met on common keys and the
    shapes of `members` merges (what the distribution of the generated inputs exercises)."""
    for k, ov in olay.items():
        if k not in base:
            stats['key:new'] += 1
            continue
        bv = base[k]
        stats['clash:%s<-%s' % (kind(bv), kind(ov))] += 1
        if type(ov) is OD and type(bv) is OD:
            clash_stats(v3, bv, ov, stats)
        elif type(ov) is list and type(bv) is list and k == 'members':
            stats['members:merge' + ('' if v3 else ':v2-plain-append')] += 1
            if not v3:
                continue
            bnames = [list(x)[0] for x in bv if type(x) is OD and len(x) >= 1]
            for it in ov:
                if type(it) is not OD:
                    stats['members:olay-item-not-map'] += 1
                elif len(it) == 0:
                    stats['members:olay-item-empty'] += 1
                elif len(it) > 1:
                    stats['members:olay-item-multi-key'] += 1
                else:
                    n = list(it)[0]
                    stats['members:hit' if n in bnames else 'members:miss'] += 1
                    if n in bnames:
                        bi = [x for x in bv if type(x) is OD and len(x) >= 1 and list(x)[0] == n][0]
                        stats['members:hit-value:%s<-%s' % (kind(bi[n]), kind(it[n]))] += 1
            for it in bv:
                if type(it) is not OD:
                    stats['members:base-item-not-map'] += 1
                elif len(it) == 0:
                    stats['members:base-item-empty'] += 1
                elif len(it) > 1:
                    stats['members:base-item-multi-key'] += 1
            if len(set(bnames)) < len(bnames):
                stats['members:base-dup-names'] += 1
            onames = [list(x)[0] for x in ov if type(x) is OD and len(x) == 1]
            if len(set(onames)) < len(onames):
                stats['members:olay-dup-names'] += 1
