"""C10, model side: the Gallina access skeleton Front/CreateConfig.create_ft against the REAL
`_Parser._normalize_props` + `_Parser._create_fts` of /repo, on field type nodes that the real
final schema (definition `ft` of config/3/field-type) accepts - the only nodes `_create_config`
can ever see.  Also replays the crash witnesses of Props/C10.v on the whole front end."""
import collections
import copy
import json
import os
import re
from concurrent.futures import ThreadPoolExecutor

import bt
import yaml
from common import run_cases_v

import barectf.config_parse_common as cpc
import barectf.config_parse_v3 as v3

from props.c09_corr import PyValidators, capture, nodes, mutate, coq_json, coq_str, canon, Unrepresentable

K_FT = 'config/3/field-type#/definitions/ft'
TAG = '--- !<tag:barectf.org,2020/3/config>\n'


def to_ordered(x):
    if isinstance(x, dict):
        return collections.OrderedDict((k, to_ordered(v)) for k, v in x.items())
    if isinstance(x, list):
        return [to_ordered(v) for v in x]
    return x


def make_parser():
    """a real _Parser object without running _parse()"""
    p = object.__new__(v3._Parser)
    p._ft_cls_name_to_create_method = {
        'unsigned-integer': p._create_int_ft, 'signed-integer': p._create_int_ft,
        'unsigned-enumeration': p._create_enum_ft, 'signed-enumeration': p._create_enum_ft,
        'real': p._create_real_ft, 'string': p._create_string_ft,
        'static-array': p._create_static_array_ft, 'dynamic-array': p._create_dynamic_array_ft,
        'structure': p._create_struct_ft,
    }
    p._trace_byte_order_prop_key = 'native-byte-order'
    return p


def real_outcome(node):
    """(code, exception type name) of the real normalisation + _create_fts on a copy of node"""
    p = make_parser()
    root = collections.OrderedDict([('trace', collections.OrderedDict([('type', collections.OrderedDict(
        [('native-byte-order', 'le'), ('x', to_ordered(copy.deepcopy(node)))]))]))])
    p._root_node = cpc._ConfigNodeV3(root)
    try:
        p._normalize_props()
        tt = root['trace']['type']
        if 'x' not in tt:
            return None
        p._create_fts(tt['x'])
        return 0, ''
    except cpc._ConfigurationParseError:
        return 1, ''
    except RecursionError:
        return None
    except Exception as e:
        return 2, type(e).__name__


TARGETED = [
    {'class': 'static-array', 'element-field-type': {'class': 'uint', 'size': 8}},
    {'class': 'static-array', 'length': None, 'element-field-type': {'class': 'str'}},
    {'class': 'dynamic-array'},
    {'class': 'dynamic-array', 'zz': 1},
    {'class': 'dynamic-array', 'element-field-type': 5},
    {'class': 'dynamic-array', 'element-field-type': {'class': 'uint'}},
    {'class': 'dynamic-array', 'element-field-type': {'class': {}}},
    {'class': 'dynamic-array', 'element-field-type': {'class': 'uint', 'size': 8, 'alignment': 0}},
    {'class': 'dynamic-array', 'element-field-type': {'class': 'nope'}},
    {'class': 'dynamic-array', 'element-field-type': {'class': 'struct'}},
    {'class': 'dynamic-array', 'element-field-type': {'class': 'dynamic-array', 'element-field-type': {'class': 'str'}}},
    {'class': 'dynamic-array', 'element-field-type': {'class': 'uint', 'size': 8}},
    {'class': 'static-array', 'length': 2, 'element-field-type': {'class': 'dynamic-array', 'element-field-type': {'class': 'str'}}},
    {'class': 'static-array', 'length': 2, 'element-field-type': {'class': 'dynamic-array'}},
    {'class': 'uenum', 'size': 8, 'mappings': None},
    {'class': 'uenum', 'size': 8, 'mappings': {'A': [1.0]}},
    {'class': 'uenum', 'size': 8, 'mappings': {'A': [[1.0, 2.0]]}},
    {'class': 'uenum', 'size': 8, 'mappings': {'A': [1, [2, 3]], 'B': None}},
    {'class': 'uint', 'size': 8, 'alignment': 8.0},
    {'class': 'uint', 'size': 8.0},
    {'class': 'uint', 'size': 8, 'alignment': 3},
    {'class': 'uint', 'size': 8, 'alignment': None, 'preferred-display-base': 'hex'},
    {'class': 'real', 'size': 32, 'alignment': 6},
    {'class': 'real', 'size': 64.0, 'alignment': 16.0},
    {'class': 'struct', 'minimum-alignment': 8.0},
    {'class': 'struct', 'minimum-alignment': 12},
    {'class': 'struct', 'members': [{'a-b': 5}]},
    {'class': 'struct', 'members': [{'a-b': {'field-type': {'class': 'str'}}}]},
    {'class': 'struct', 'members': [{'9': {}}]},
    {'class': 'struct', 'members': [{'9': 'x'}]},
    {'class': 'struct', 'members': [{'a': {'field-type': {'class': 'str'}}}, {'a': {'field-type': {'class': 'str'}}}]},
    {'class': 'struct', 'members': [{'struct': {'field-type': {'class': 'str'}}}]},
    {'class': 'struct', 'members': [{'a': {'field-type': {'class': 'struct'}}}]},
    {'class': 'struct', 'members': [{'a': {'field-type': {'class': 'dynamic-array', 'element-field-type': {'class': 'uint', 'size': 8}}}}]},
    {'class': 'struct', 'members': None},
    {'class': 'str'},
]


def replay_witnesses(ctx):
    """the crash witnesses of Props/C10.v on the whole real front end"""
    from props.c09_witness import with_member_ft, cfg_of
    # (name, node, embedding, finding key, exception) - exception None: a defect repaired in /repo,
    # the node must now be refused with a configuration error
    wits = [
        ('w_enum_null', {'class': 'uenum', 'size': 8, 'mappings': None}, 'member', 'NEW-KeyError-_create_enum_ft', None),
        ('w_align_float', {'class': 'uint', 'size': 8, 'alignment': 8.0}, 'member',
         'S19-integral-float-TypeError-_validate_alignment', None),
        ('w_S14', {'class': 'static-array', 'element-field-type': {'class': 'uint', 'size': 8}}, 'member',
         'S14-static-array-KeyError-length', None),
        ('w_S4', {'class': 'dynamic-array', 'zz': 1}, 'member', 'S4-dynamic-array-KeyError', None),
        ('w_member_val', {'class': 'struct', 'members': [{'a-b': 5}]}, 'payload', 'NEW-member-name-pattern-TypeError', None),
    ]
    body = ['From Coq Require Import List String ZArith.', 'Import ListNotations.',
            'From BT.Front Require Import Json JsonSchema JsonWitness CreateConfigProofs.', 'Open Scope string_scope.',
            'Definition same : list bool := [']
    body.append(';\n'.join('json_eqb %s %s' % (coq_json(inst), name) for (name, inst, _, _, _) in wits))
    body.append('].')
    body.append('Eval vm_compute in same.')
    rc, out = run_cases_v('c10wit', '\n'.join(body) + '\n', ctx.scratch, timeout=300)
    m = re.search(r'=\s*\[(.*?)\]\s*:\s*list bool', out, re.S)
    same = [t.strip() == 'true' for t in m.group(1).split(';')] if rc == 0 and m else None
    if same is None or len(same) != len(wits) or not all(same):
        ctx.corr_broken.append('crash witnesses of Props/C10.v differ from the documents replayed by the harness: %s %s' % (same, out[-300:]))
    rows = []
    for name, inst, embed, key, exc_name in wits:
        if embed == 'payload':
            cfg = cfg_of({}, 'd', {})
            cfg['trace']['type']['data-stream-types']['d']['event-record-types']['e']['payload-field-type'] = inst
        else:
            cfg = with_member_ft(inst)
        path = os.path.join(ctx.scratch, 'c10wit_%s.yaml' % name)
        text = TAG + yaml.dump(cfg, default_flow_style=False, sort_keys=False)
        with open(path, 'w') as f:
            f.write(text)
        try:
            with open(path) as f:
                bt.barectf.configuration_from_file(f)
            got = 'accepted'
        except cpc._ConfigurationParseError:
            got = 'config_error'
        except Exception as e:
            got = type(e).__name__
        rows.append({'witness': name, 'model': ('Crash ' + exc_name) if exc_name else 'rejected by the schema', 'real_front_end': got})
        if exc_name is None:
            if got != 'config_error':
                ctx.violation('regression of a repaired defect (%s): field type node %s must be refused with a configuration error, real front end: %s' % (
                    key, json.dumps(inst), got), {'yaml': text, 'outcome': got, 'witness': name})
        elif got == exc_name:
            ctx.finding(key, 'schema-valid field type node %s makes _create_config raise %s (not a configuration error); Coq witness %s' % (
                json.dumps(inst), exc_name, name), {'yaml': text, 'exception': got, 'witness': name})
        else:
            ctx.corr_broken.append('crash witness %s: model says Crash %s, real front end: %s' % (name, exc_name, got))
    ctx.cov['model_witness_replay'] = rows


def run(ctx):
    rng = ctx.rng
    pv = PyValidators()
    rec, _, _ = capture(ctx)
    pool, seen = [], set()
    for major, key, inst in rec:
        if key == 'config/3/config#':
            for _, sub in nodes(inst):
                if isinstance(sub, dict) and 'class' in sub:
                    c = canon(sub)
                    if c not in seen:
                        seen.add(c)
                        pool.append(sub)
    cases, stats, skipped_invalid = [], collections.Counter(), 0
    seen_cases = set()

    def add(node, src):
        nonlocal skipped_invalid
        try:
            coq_json(node)
        except Unrepresentable:
            return
        c = canon(node)
        if c in seen_cases:
            return
        seen_cases.add(c)
        if pv.verdict(3, K_FT, node) != 0:
            skipped_invalid += 1
            return
        r = real_outcome(node)
        if r is None:
            return
        cases.append((node, r[0], r[1]))
        stats['%s:%s' % (src, {0: 'ok', 1: 'config_error', 2: 'crash:' + r[1]}[r[0]])] += 1

    for t in TARGETED:
        add(t, 'targeted')
    for n in pool:
        add(n, 'harvested')
    want = ctx.pick(800, 20000)
    tries = 0
    while len(cases) < want and tries < want * 8:
        tries += 1
        base = rng.choice(pool + TARGETED)
        r = mutate(rng, base)
        if r is None:
            continue
        m = r[0]
        if rng.random() < 0.3:
            r2 = mutate(rng, m)
            if r2 is not None:
                m = r2[0]
        if isinstance(m, dict):
            add(m, 'mutant')
    shards = [cases[i:i + 300] for i in range(0, len(cases), 300)]

    def run_shard(ix):
        body = ['From Coq Require Import List String ZArith.', 'Import ListNotations.',
                'From BT.Front Require Import Json JsonSchema CreateConfig.', 'Open Scope string_scope.',
                'Definition cases : list cc_case := [']
        body.append(';\n'.join('(%s, %d%%nat, %s)' % (coq_json(n), code, coq_str(e)) for (n, code, e) in shards[ix]))
        body.append('].')
        body.append('Eval vm_compute in (failing (cc_case_ok 200%nat) 0%nat cases).')
        return run_cases_v('c10model_%d' % ix, '\n'.join(body) + '\n', ctx.scratch, timeout=900)

    n_eval, bad = 0, []
    with ThreadPoolExecutor(max_workers=12) as ex:
        for ix, (rc, out) in enumerate(ex.map(run_shard, range(len(shards)))):
            m = re.search(r'=\s*\[(.*?)\]\s*:\s*list nat', out, re.S)
            if rc != 0 or not m:
                ctx.corr_broken.append('C10 create_ft model evaluation failed on shard %d: %s' % (ix, out[-400:]))
                continue
            n_eval += len(shards[ix])
            for t in [t for t in m.group(1).replace('\n', ' ').split(';') if t.strip()]:
                bad.append(shards[ix][int(t.strip())])
    if bad:
        ctx.corr_broken.append('Gallina create_ft disagrees with the real _normalize_props + _create_fts on %d of %d schema-valid field type nodes' % (len(bad), n_eval))
        for (n, code, e) in bad[:5]:
            ctx.notes.append('create_ft disagreement: real=(%d,%s) node=%s' % (code, e, json.dumps(n, default=repr)[:500]))
    ctx.cov['model'] = {
        'evaluations': n_eval, 'distinct_nontrivial': len(seen_cases),
        'rule': 'distinct field type nodes accepted by the real final schema (definition ft), real _normalize_props+_create_fts outcome class '
                '(ok / configuration error / other exception type) vs create_ft under vm_compute',
        'nodes_by_source_and_real_outcome': dict(sorted(stats.items())),
        'generated_but_rejected_by_schema(not compared)': skipped_invalid,
        'disagreements': len(bad),
    }
    replay_witnesses(ctx)
