"""C18: the witnesses of the `_refuted` theorems of Front/V2Proofs.v, replayed on the real code.

Each probe is a barectf 2 document (the SAME tree as the Coq witness: c18.py checks that the Gallina
rendering of the tree below occurs literally in V2Proofs.v) on which the independent reading of the
document (V2Sem.v) and the conversion disagree; `check(run)` says whether the real code shows the
deviation.  `run(text) -> ('ok', {file: text}) | ('cfgerr', msg) | ('crash', msg)`."""
import collections

from props import c18_gen as G

OD = collections.OrderedDict


def _int(size, **kw):
    n = OD([('class', 'int'), ('size', size)])
    n.update(kw)
    return n


def _pm(c):
    return [OD([('type', 'clock'), ('name', c), ('property', 'value')])]


def base(payload=None, pc_extra=None, eh=None, ph=None, clocks=None):
    pcf = OD([('packet_size', _int(32)), ('content_size', _int(32))])
    pcf.update(pc_extra or [])
    s = OD([('packet-context-type', OD([('class', 'struct'), ('fields', pcf)]))])
    if eh is not None:
        s['event-header-type'] = eh
    s['events'] = OD([('e', OD([('payload-type', payload if payload is not None else
                                 OD([('class', 'struct'), ('fields', OD([('x', _int(8))]))]))]))])
    tr = OD([('byte-order', 'le')])
    if ph is not None:
        tr['packet-header-type'] = ph
    meta = OD()
    if clocks:
        meta['clocks'] = OD((c, OD([('freq', 1000)])) for c in clocks)
    meta['trace'] = tr
    meta['streams'] = OD([('s', s)])
    return OD([('version', '2.2'), ('metadata', meta)])


V3_BASE = '''trace:
  type:
    trace-byte-order: le
%(clocks)s    $features: {magic-field-type: false, uuid-field-type: false, data-stream-type-id-field-type: false}
    data-stream-types:
      s:
%(dst)s        $features:
          packet:
            total-size-field-type: {class: uint, size: 32}
            content-size-field-type: {class: uint, size: 32}
            beginning-timestamp-field-type: false
            end-timestamp-field-type: false
            discarded-event-records-counter-snapshot-field-type: false
%(pkt)s          event-record: {type-id-field-type: false, timestamp-field-type: false}
        event-record-types:
          e:
            payload-field-type:
              class: struct
              members:
                - x: {field-type: %(x)s}
'''


def twin(x='{class: uint, size: 8}', pkt='', clocks='', dst=''):
    return G.V3_HEADER + V3_BASE % dict(x=x, pkt=pkt, clocks=clocks, dst=dst)


def _md(files):
    return files.get('metadata', '')


PROBES = []


def probe(key, coq_name, what, repair):
    def deco(f):
        PROBES.append({'key': key, 'coq': coq_name, 'what': what, 'repair': repair, 'make': f})
        return f
    return deco


# ------------------------------------------------------------------ regression inputs (former witnesses)
# A deviation that was repaired in /repo: the document must now load and generate exactly what its twin
# generates; if the bug returns the check reports a VIOLATION (never a known finding).
REGRESSIONS = []


def regression(name, coq_name, fixed_by):
    def deco(f):
        REGRESSIONS.append({'name': name, 'coq': coq_name, 'fixed_by': fixed_by, 'make': f})
        return f
    return deco


@regression('v2-real-byte-order-not-dropped', 'w_real_byte_order',
            '/repo 3990a98 (_conv_real_ft_node drops `byte-order`)')
def r_real_bo():
    flt = OD([('class', 'float'), ('size', OD([('exp', 8), ('mant', 24)])), ('byte-order', 'le')])
    tree = base(payload=OD([('class', 'struct'), ('fields', OD([('x', flt)]))]))
    return tree, twin(x='{class: real, size: 32}')


TWIN_FIELDS_NULL = G.V3_HEADER + '''trace:
  type:
    trace-byte-order: le
    $features: {magic-field-type: false, uuid-field-type: false, data-stream-type-id-field-type: false}
    data-stream-types:
      s:
        $features:
          packet:
            total-size-field-type: {class: uint, size: 32}
            content-size-field-type: {class: uint, size: 32}
            beginning-timestamp-field-type: false
            end-timestamp-field-type: false
            discarded-event-records-counter-snapshot-field-type: false
          event-record: {type-id-field-type: {class: uint, size: 8}, timestamp-field-type: false}
        event-record-types:
          e:
            payload-field-type: {class: struct}
'''


@regression('v2-struct-fields-null-or-absent-crash (fields: null)', 'w_fields_null',
            '/repo 616725c (`fields: null` = a structure without members)')
def r_fields_null():
    tree = base(payload=OD([('class', 'struct'), ('fields', None)]),
                eh=OD([('class', 'struct'), ('fields', OD([('id', _int(8))]))]))
    return tree, TWIN_FIELDS_NULL


@regression('v2-struct-fields-null-or-absent-crash (header structures without fields)', 'w_header_no_fields',
            '/repo 616725c (a header structure without `fields` = no feature)')
def r_header_no_fields():
    tree = base(ph=OD([('class', 'struct')]), eh=OD([('class', 'struct')]))
    return tree, twin()


@probe('v2-packet-seq-num-dropped', 'w_seq_num',
       'the reserved packet context member `packet_seq_num` (constrained to an unsigned integer by schemas/config/2/config.yaml, '
       'reserved by the barectf 3 parser too) is silently dropped: the generated packet context has no sequence number, whereas the '
       'barectf 3 twin that enables `sequence-number-field-type` with the same field type has one',
       'config_parse_v2.py v3_features_node_from_v2_ft_nodes: `_set_v3_feature_ft_if_exists(v3_pkt_node, \'sequence-number-field-type\', '
       'self._conv_ft_node_if_exists(v2_pkt_ctx_ft_fields_node, \'packet_seq_num\'))`')
def p_seq_num():
    tree = base(pc_extra=[('packet_seq_num', _int(16))])
    tw = twin(pkt='            sequence-number-field-type: {class: uint, size: 16}\n')

    def check(run, text):
        r2, r3 = run(text), run(tw)
        if r2[0] != 'ok' or r3[0] != 'ok':
            return False, {'v2_outcome': r2[0], 'v3_twin_outcome': r3[0]}
        return ('packet_seq_num' not in _md(r2[1]) and 'packet_seq_num' in _md(r3[1])), \
            {'v2_metadata_has_packet_seq_num': 'packet_seq_num' in _md(r2[1]), 'v3_twin_metadata_has_packet_seq_num': 'packet_seq_num' in _md(r3[1])}
    return tree, tw, check


@probe('v2-event-header-clock-overrides-packet-clock', 'w_mixed_clocks',
       'a stream whose event header `timestamp` is mapped to clock A and whose packet context `timestamp_begin`/`timestamp_end` are '
       'mapped to clock B is accepted and ALL three members are generated as values of clock A (metadata `map = clock.A.value`); '
       'the converter only rejects begin/end mismatches',
       'config_parse_v2.py _conv_dst_node: raise the existing "Field types are not mapped to the same clock type" error also when the '
       'event header timestamp clock differs from the packet context timestamp clock')
def p_mixed():
    tree = base(pc_extra=[('timestamp_begin', _int(64, **{'property-mappings': _pm('B')})),
                          ('timestamp_end', _int(64, **{'property-mappings': _pm('B')}))],
                eh=OD([('class', 'struct'), ('fields', OD([('timestamp', _int(64, **{'property-mappings': _pm('A')}))]))]),
                clocks=['A', 'B'])

    def check(run, text):
        r2 = run(text)
        if r2[0] != 'ok':
            return False, {'v2_outcome': r2[0], 'v2_message': r2[1]}
        md = _md(r2[1])
        return (md.count('map = clock.A.value') == 3 and 'map = clock.B.value' not in md), \
            {'maps_to_A': md.count('map = clock.A.value'), 'maps_to_B': md.count('map = clock.B.value')}
    return tree, None, check


@probe('v2-header-members-dropped', 'w_header_members',
       'members of `packet-header-type` other than magic/uuid/stream_id (e.g. `stream_instance_id`, which schemas/config/2/config.yaml '
       'names, or any user member) and members of `event-header-type` other than id/timestamp are accepted and silently dropped from '
       'the generated trace; there is no barectf 3 twin, and no diagnostic',
       'config_parse_v2.py _conv_meta_node / _conv_dst_node: raise _ConfigurationParseError for a header member that barectf 3 cannot '
       'express (or forbid them in schemas/config/2/config.yaml with additionalProperties: false)')
def p_header_members():
    tree = base(ph=OD([('class', 'struct'), ('fields', OD([('magic', _int(32)), ('stream_instance_id', _int(8))]))]),
                eh=OD([('class', 'struct'), ('fields', OD([('cpu', _int(8))]))]))

    def check(run, text):
        r2 = run(text)
        if r2[0] != 'ok':
            return False, {'v2_outcome': r2[0], 'v2_message': r2[1]}
        md = _md(r2[1])
        return ('stream_instance_id' not in md and 'cpu' not in md), {'stream_instance_id_in_metadata': 'stream_instance_id' in md, 'cpu_in_metadata': 'cpu' in md}
    return tree, None, check


@probe('v2-property-mappings-outside-timestamps-dropped', 'w_payload_mapping',
       'a `property-mappings` entry on an integer that is not a timestamp member (payload, context, extra packet context member) is '
       'accepted and silently dropped: the metadata no longer says the member is a value of the clock',
       'config_parse_v2.py _conv_int_ft_node: raise _ConfigurationParseError when `property-mappings` is set on an integer field type '
       'that is not one of timestamp_begin / timestamp_end / timestamp (the converter knows which ones it consumed)')
def p_payload_mapping():
    tree = base(payload=OD([('class', 'struct'), ('fields', OD([('x', _int(64, **{'property-mappings': _pm('A')}))]))]), clocks=['A'])

    def check(run, text):
        r2 = run(text)
        if r2[0] != 'ok':
            return False, {'v2_outcome': r2[0], 'v2_message': r2[1]}
        return 'clock.A.value' not in _md(r2[1]), {'map_in_metadata': 'clock.A.value' in _md(r2[1])}
    return tree, None, check


# ------------------------------------------------------------------ which refuted class(es) a document is in
def _fts(node, out):
    if isinstance(node, OD):
        if isinstance(node.get('class'), str):
            out.append(node)
        for v in node.values():
            _fts(v, out)
    elif isinstance(node, list):
        for v in node:
            _fts(v, out)


def _fields(t):
    if isinstance(t, OD) and isinstance(t.get('fields'), OD):
        return t['fields']
    return OD()


def _clock(ft):
    if isinstance(ft, OD) and isinstance(ft.get('property-mappings'), list) and ft['property-mappings']:
        m = ft['property-mappings'][0]
        return m.get('name') if isinstance(m, OD) else None
    return None


def refuted_classes(tree):
    """Keys of the refuted classes a barectf 2 document (pre-conversion tree) belongs to."""
    out = set()
    try:
        meta = tree['metadata']
        tr = meta['trace']
        allft = []
        _fts(meta.get('streams'), allft)
        _fts(tr.get('packet-header-type'), allft)
        ph = tr.get('packet-header-type')
        if set(_fields(ph)) - {'magic', 'uuid', 'stream_id'}:
            out.add('v2-header-members-dropped')
        consumed = []
        for s in meta['streams'].values():
            eh = s.get('event-header-type')
            if set(_fields(eh)) - {'id', 'timestamp'}:
                out.add('v2-header-members-dropped')
            pc = _fields(s.get('packet-context-type'))
            if 'packet_seq_num' in pc:
                out.add('v2-packet-seq-num-dropped')
            ts = [x for x in (_fields(eh).get('timestamp'), pc.get('timestamp_begin'), pc.get('timestamp_end')) if x is not None]
            consumed += [id(x) for x in ts]
            if len(set(_clock(x) for x in ts)) > 1:
                out.add('v2-event-header-clock-overrides-packet-clock')
        for n in allft:
            if n.get('property-mappings') and id(n) not in consumed:
                out.add('v2-property-mappings-outside-timestamps-dropped')
    except (KeyError, TypeError, AttributeError):
        pass
    return out


# ------------------------------------------------------------------ the non-vacuity example of Props/C18.v
def example_tree():
    """A barectf 2 document exercising every clause of valid_v2 (Definition ex_valid_doc in V2Proofs.v)."""
    ts = lambda size: _int(size, signed=False, **{'property-mappings': _pm('sys')})   # noqa: E731
    enum = OD([('class', 'enum'), ('value-type', _int(8, signed=True, align=8, base='hex')),
               ('members', ['ZERO', OD([('label', 'TEN'), ('value', 10)]), 'ELEVEN',
                            OD([('label', 'RNG'), ('value', [20, 29])]), 'THIRTY', OD([('label', 'ZERO'), ('value', -1)])])])
    payload = OD([('class', 'struct'), ('min-align', 16), ('fields', OD([
        ('e', enum),
        ('f', OD([('class', 'floating-point'), ('size', OD([('exp', 11), ('mant', 53)])), ('align', 64)])),
        ('s', OD([('class', 'string'), ('encoding', 'utf8')])),
        ('a', OD([('class', 'array'), ('length', 2), ('element-type',
                  OD([('class', 'array'), ('length', 3), ('element-type', _int(3))]))])),
        ('d', OD([('class', 'array'), ('length', 'dynamic'), ('element-type', _int(16, align=16))]))]))])
    s1 = OD([
        ('packet-context-type', OD([('class', 'struct'), ('fields', OD([
            ('timestamp_begin', ts(64)), ('packet_size', _int(32)), ('content_size', _int(32)),
            ('my_extra', _int(5, signed=None)), ('timestamp_end', ts(64)), ('events_discarded', _int(16))]))])),
        ('event-header-type', OD([('class', 'struct'), ('fields', OD([('timestamp', ts(32)), ('id', _int(8))]))])),
        ('event-context-type', OD([('class', 'struct'), ('fields', OD([('cpu', _int(8))]))])),
        ('events', OD([('ev1', OD([('log-level', 'WARN'), ('payload-type', payload)])),
                       ('ev2', OD([('log-level', 3), ('context-type', OD([('class', 'struct'), ('fields', OD([('c', _int(1))]))])),
                                   ('payload-type', None)]))]))])
    s2 = OD([('$default', None),
             ('packet-context-type', OD([('class', 'struct'), ('fields', OD([('packet_size', _int(16)), ('content_size', _int(16))]))])),
             ('events', OD([('only', OD([('payload-type', OD([('class', 'struct'), ('fields', OD([('x', _int(64, signed=True))]))]))]))]))])
    meta = OD([
        ('$log-levels', OD([('WARN', 4)])),
        ('env', OD([('host', 'h1'), ('n', 3)])),
        ('clocks', OD([('sys', OD([('freq', 1000000), ('error-cycles', 2), ('offset', OD([('seconds', 5)])),
                                   ('absolute', False), ('$return-ctype', 'unsigned long')])),
                       ('other', OD([('description', 'unused'), ('return-ctype', None)]))])),
        ('trace', OD([('byte-order', 'be'), ('uuid', '01234567-89ab-cdef-0123-456789abcdef'),
                      ('packet-header-type', OD([('class', 'struct'), ('fields', OD([
                          ('magic', _int(32)),
                          ('uuid', OD([('class', 'array'), ('length', 16), ('element-type', _int(8))])),
                          ('stream_id', _int(8))]))]))])),
        ('$default-stream', 'second'),
        ('streams', OD([('first', s1), ('second', s2)]))])
    return OD([('version', '2.1'), ('prefix', 'my_tr__'), ('options', OD([('gen-prefix-def', True)])), ('metadata', meta)])
