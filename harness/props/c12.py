"""C12: inclusion, aliases and inheritance follow the documented patching rules.

Proof: Props/C12.v (Front/Yaml, Patch, PatchProofs, Include, Alias, Inherit).
Tie, on every run:
 (1) the REAL _Parser._update_node is called on generated (base, overlay) pairs for major versions
     2 and 3 and its result (or the fact that it raised) is compared with the Coq model `update`
     evaluated by vm_compute in generated case files;
 (2) oracle: the Python transcription of `patch_spec` (the documented table) on the same inputs
     must equal the implementation's result on well-formed inputs;
 (3) end to end: inclusion trees / alias and inheritance chains written to a scratch directory,
     loaded through the real barectf.effective_configuration_file and compared with the result
     predicted from the documented rules (see c12_e2e.py).
"""
import collections
import copy
import re
from concurrent.futures import ThreadPoolExecutor

import bt
import barectf.config_parse_common as cpc
from common import prepare, run_cases_v
from props import c12_trees as T

OD = collections.OrderedDict


def real_update(major, base, olay):
    """Call the real _update_node on copies; returns ('ok', new base) or ('raise', exception name)."""
    p = object.__new__(cpc._Parser)
    p._major_version = major
    b, o = copy.deepcopy(base), copy.deepcopy(olay)
    try:
        p._update_node(b, o)
    except Exception as exc:  # noqa
        return 'raise', type(exc).__name__, o
    return 'ok', b, o


def gen_pairs(ctx, n):
    g = T.Gen(ctx.rng)
    pairs = []
    # a fixed head of hand-written cases: the examples of include.adoc / ft-obj.adoc and the
    # malformed `members` shapes
    for b, o in HEAD:
        for major in (2, 3):
            pairs.append((major, copy.deepcopy(b), copy.deepcopy(o)))
    while len(pairs) < n:
        d = ctx.rng.choice([1, 2, 2, 3, 3, 4, 4, 5, 5])
        b, o = g.pair(d)
        major = 3 if ctx.rng.random() < 0.65 else 2
        pairs.append((major, b, o))
    return pairs


def _m(*items):
    return [OD(it) if isinstance(it, list) else it for it in items]


HEAD = [
    # include.adoc examples
    (OD([('log-level', 'WARN'), ('payload-field-type', OD([('class', 'structure'), ('members', _m([('msg', 'string')], [('msg_id', 'uint16')]))]))]),
     OD([('log-level', 'ERROR')])),
    (OD([('frequency', 1000000), ('offset', OD([('seconds', 1992839)]))]),
     OD([('frequency', 8000000), ('origin-is-unix-epoch', False)])),
    (OD([('$field-type-aliases', OD([('my-enum', OD([('class', 'signed-enumeration'), ('mappings', OD([('COMPOSE', [56, [100, 299]]), ('DIRTY', [0])]))]))]))]),
     OD([('$field-type-aliases', OD([('my-enum', OD([('size', 16), ('mappings', OD([('COMPOSE', [-22])]))]))]))])),
    (OD([('specific-context-field-type', OD([('class', 'structure'), ('members', _m([('msg', 'string')], [('user_id', 'uint16')]))]))]),
     OD([('specific-context-field-type', OD([('class', 'structure'), ('members', _m(
         [('src_ip_addr', OD([('field-type', OD([('class', 'static-array'), ('length', 4), ('element-field-type', 'uint8')]))]))],
         [('user_id', 'int8')]))]))])),
    # null resets
    (OD([('a', OD([('b', 1)])), ('c', [1])]), OD([('a', None), ('c', None)])),
    # malformed members
    (OD([('members', _m([]))]), OD([('members', _m([('a', 1)]))])),
    (OD([('members', _m([('a', 0)], []))]), OD([('members', _m([('a', 1)]))])),
    (OD([('members', _m([('a', 0)], []))]), OD([('members', _m([('a', 1)], [('b', 2)]))])),
    (OD([('members', _m([('a', 0), ('b', 1)]))]), OD([('members', _m([('a', 5)], [('b', 6)]))])),
    (OD([('members', _m([('a', 0)]))]), OD([('members', _m([('a', 5), ('b', 6)], 3, [('a', 7)], [('a', 8)]))])),
    (OD([('members', [])]), OD([('members', _m([('a', 1)], [('a', 2)]))])),
    (OD([('members', _m([('a', OD([('p', 1)]))], [('a', OD([('q', 1)]))]))]), OD([('members', _m([('a', OD([('r', 2)]))]))])),
    (OD([('members', _m([('members', [OD([('x', 1)])])]))]), OD([('members', _m([('members', [OD([('x', 2)])])]))])),
    (OD(), OD()),
]


def corr_update(ctx):
    n = ctx.pick(5000, 100000)
    pairs = gen_pairs(ctx, n)
    stats = collections.Counter()
    results = []
    nviol = 0
    nwf = 0
    for major, b, o in pairs:
        v3 = major == 3
        st, r, o_after = real_update(major, b, o)
        if not T.same(o_after, o):
            ctx.violation('_update_node modified its overlay argument', {'major': major, 'base': T.to_jsonable(b), 'overlay': T.to_jsonable(o)})
        results.append((major, b, o, r if st == 'ok' else None))
        stats['major:%d' % major] += 1
        stats['outcome:' + (st if st == 'ok' else 'raise:' + r)] += 1
        stats['depth:base:%d' % T.depth(b)] += 1
        stats['depth:overlay:%d' % T.depth(o)] += 1
        stats['fanout:base:%d' % len(b)] += 1
        stats['fanout:overlay:%d' % len(o)] += 1
        T.clash_stats(v3, b, o, stats)
        # (2) oracle: documented rules vs implementation, on the domain the rules cover
        if T.wf(v3, b) and T.wf(v3, o):
            nwf += 1
            try:
                exp = T.patch_spec(v3, o, b)
            except T.Undefined as exc:   # cannot happen on well-formed inputs
                ctx.corr_broken.append('python spec undefined on a well-formed input: %s' % exc)
                continue
            if st != 'ok' or not T.same(exp, r):
                nviol += 1
                if nviol <= 3:
                    ctx.violation('_update_node (major %d) differs from the documented patching rules' % major,
                                  {'major_version': major, 'base': T.to_jsonable(b), 'overlay': T.to_jsonable(o),
                                   'implementation': T.to_jsonable(r) if st == 'ok' else 'raised ' + str(r),
                                   'documented': T.to_jsonable(exp)})
        else:
            stats['input:not-well-formed'] += 1
    # (1) correspondence with the Coq model
    shard_size = 400
    shards = [results[i:i + shard_size] for i in range(0, len(results), shard_size)]

    def run_shard(ix):
        rows = []
        for major, b, o, r in shards[ix]:
            rows.append('(%s, %s, %s, %s)' % ('true' if major == 3 else 'false', T.to_coq(b), T.to_coq(o),
                                              'None' if r is None else '(Some %s)' % T.to_coq(r)))
        body = ['From Coq Require Import List String ZArith Bool.', 'Import ListNotations.',
                'From BT.Front Require Import Yaml Patch.', 'Open Scope string_scope.', 'Open Scope list_scope.',
                'Definition cases : list patch_case := [', ';\n'.join(rows), '].',
                'Eval vm_compute in (failing patch_case_ok 0%nat cases, failing patch_case_spec_ok 0%nat cases).']
        return run_cases_v('c12_upd_%d' % ix, '\n'.join(body) + '\n', ctx.scratch, timeout=1200)

    ncoq, disagree, spec_disagree = 0, [], []
    with ThreadPoolExecutor(max_workers=14) as ex:
        for ix, (rc, out) in enumerate(ex.map(run_shard, range(len(shards)))):
            m = re.search(r'=\s*\(\s*\[(.*?)\]\s*,\s*\[(.*?)\]\s*\)\s*:\s*list nat \* list nat', out, re.S)
            if rc != 0 or not m:
                ctx.corr_broken.append('C12 model evaluation failed on shard %d: %s' % (ix, out[-300:]))
                continue
            ncoq += len(shards[ix])
            for t in [t for t in m.group(1).replace('\n', ' ').split(';') if t.strip()]:
                disagree.append(shards[ix][int(t.strip())])
            for t in [t for t in m.group(2).replace('\n', ' ').split(';') if t.strip()]:
                spec_disagree.append(shards[ix][int(t.strip())])
    if disagree:
        ctx.corr_broken.append('Coq model Patch.update disagrees with the real _update_node on %d cases' % len(disagree))
        c = disagree[0]
        ctx.notes.append('first disagreeing update case: major=%d base=%r overlay=%r impl=%r' % (c[0], T.to_plain(c[1]), T.to_plain(c[2]), T.to_plain(c[3])))
    if spec_disagree and not nviol:
        ctx.corr_broken.append('Coq patch_spec disagrees with the implementation on %d well-formed cases although the Python transcription agrees' % len(spec_disagree))
    distinct = len(set((m, T.to_coq(b), T.to_coq(o)) for m, b, o, _ in results if len(o) > 0 and any(k in b for k in o)))
    ctx.cov.update({
        'update_pairs': len(results),
        'update_pairs_distinct_with_common_key': distinct,
        'update_pairs_well_formed': nwf,
        'update_coq_model_cases': ncoq,
        'update_coq_model_disagreements': len(disagree),
        'update_spec_oracle_violations': nviol,
        'update_input_distribution': {k: stats[k] for k in sorted(stats)},
        'update_clash_kinds_seen': len([k for k in stats if k.startswith('clash:')]),
    })
    samples = []
    for major, b, o, r in results[len(HEAD) * 2:: max(1, len(results) // 5)][:5]:
        samples.append({'major': major, 'base': T.to_plain(b), 'overlay': T.to_plain(o), 'impl': T.to_plain(r)})
    return len(results), distinct, samples


def run(ctx):
    prepare(ctx)
    n1, d1, samples = corr_update(ctx)
    n2 = d2 = 0
    try:
        from props import c12_e2e
    except ImportError:
        c12_e2e = None
    if c12_e2e is not None:
        n2, d2, s2 = c12_e2e.run(ctx)
        samples += s2
    ctx.cov.update({
        'evaluations': n1 + n2,
        'distinct_nontrivial': d1 + d2,
        'rule': 'update: generated (base, overlay) mapping pairs, depth <= 5, fan-out <= 5, all kind clashes, well-formed and '
                'malformed `members` lists, major versions 2 and 3, each run through the real _update_node, the Coq model '
                '(vm_compute) and the documented-rule oracle; distinct = distinct (major, base, overlay) with at least one '
                'common key.  end-to-end: see e2e_* keys',
        'exhaustive': False,
        'samples': samples[:8],
    })
