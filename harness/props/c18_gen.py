"""C18: ONE abstract trace configuration, TWO printings (a barectf 2 document and its barectf 3 twin).

The abstract object says what the trace IS (byte order, clocks, the members of every header /
context / payload with their sizes, alignments, signedness, enumeration ranges, which clock a
timestamp member counts, log levels, prefixes, header options).  `print_v2` writes it in the
barectf 2 dialect (reserved member names in `packet-header-type` / `packet-context-type` /
`event-header-type`, `property-mappings`, enumeration `members` with implicit values, ...);
`print_v3` writes the barectf 3 document of the SAME trace from the barectf 3 documentation
(docs/modules/yaml): explicit `$features` (everything the barectf 2 document does not have is
`false`), `$default-clock-type-name`, `mappings` with every range explicit (computed HERE, by
`enum_ranges`, not by barectf), `static-array` / `dynamic-array`, `members`, both prefixes.
Neither printer looks at config_parse_v2.py's output.

Reading decisions (also DESIGN.md section 9 / S17):
  * the barectf 2 `byte-order` of the trace is the barectf 3 `trace-byte-order`;
  * a property absent from the barectf 2 object is absent from the twin (clock `absolute` ->
    `origin-is-unix-epoch`, alignments, display bases, prefix, header options);
  * every timestamp member of one stream counts the same clock (that clock is the stream's default
    clock in the twin); documents where they differ have no twin (see c18.py, finding probes).

All randomness comes from the `rng` arguments (derived from ctx.rng by the caller)."""
import collections
import copy

import yaml

OD = collections.OrderedDict

V3_HEADER = '%YAML 1.2\n--- !<tag:barectf.org,2020/3/config>\n'

CTF_KEYWORDS = {'align', 'callsite', 'clock', 'enum', 'env', 'event', 'floating_point', 'integer', 'stream',
                'string', 'struct', 'trace', 'typealias', 'typedef', 'variant',
                # C type specifiers, reserved too since /repo c9ab8b8
                'const', 'char', 'double', 'float', 'int', 'long', 'short', 'signed', 'unsigned', 'void',
                '_Bool', '_Complex', '_Imaginary'}
RESERVED = {'packet_size', 'content_size', 'timestamp_begin', 'timestamp_end', 'events_discarded', 'packet_seq_num',
            'magic', 'uuid', 'stream_id', 'stream_instance_id', 'id', 'timestamp'}

# stdint.yaml of include/2 and include/3: (size, signed, align) -> (v2 alias, v3 alias)
STD_INT = {}
for _sz in (8, 16, 32, 64):
    STD_INT[(_sz, False, _sz)] = ('uint%d' % _sz, 'uint%d' % _sz)
    STD_INT[(_sz, True, _sz)] = ('int%d' % _sz, 'sint%d' % _sz)
    if _sz > 8:
        STD_INT[(_sz, False, 8)] = ('byte-packed-uint%d' % _sz, 'byte-packed-uint%d' % _sz)
        STD_INT[(_sz, True, 8)] = ('byte-packed-int%d' % _sz, 'byte-packed-sint%d' % _sz)
    STD_INT[(_sz, False, 1)] = ('bit-packed-uint%d' % _sz, 'bit-packed-uint%d' % _sz)
    STD_INT[(_sz, True, 1)] = ('bit-packed-int%d' % _sz, 'bit-packed-sint%d' % _sz)
STD_FLOAT = {(32, 32): ('float', 'float'), (64, 64): ('double', 'double'),
             (32, 8): ('byte-packed-float', 'byte-packed-float'), (64, 8): ('byte-packed-double', 'byte-packed-double'),
             (32, 1): ('bit-packed-float', 'bit-packed-float'), (64, 1): ('bit-packed-double', 'bit-packed-double')}


def ident(rng, used, lo=1, hi=6):
    first = 'abcdefghijklmnopqrstuvwxyzABXYZ_'
    rest = first + '0123456789'
    while True:
        s = rng.choice(first) + ''.join(rng.choice(rest) for _ in range(rng.randint(lo, hi) - 1))
        if s in used or s in CTF_KEYWORDS or s in RESERVED or s.startswith('__') or s == '_' or s.startswith('_'):
            continue
        used.add(s)
        return s


# ------------------------------------------------------------------ abstract field types

def a_int(rng, signed=None, size=None, align='rand', base='rand'):
    if signed is None:
        signed = rng.random() < 0.4
    if size is None:
        size = rng.choice([1, 3, 5, 7, 8, 8, 9, 13, 16, 16, 17, 24, 31, 32, 32, 33, 48, 63, 64, 64, rng.randint(1, 64)])
    if align == 'rand':
        align = None if rng.random() < 0.4 else 1 << rng.randint(0, 6)
    if base == 'rand':
        base = None if rng.random() < 0.6 else rng.choice(['bin', 'oct', 'dec', 'hex'])
    return {'k': 'int', 'size': size, 'signed': signed, 'align': align, 'base': base}


def a_float(rng):
    size = rng.choice([32, 64])
    align = None if rng.random() < 0.35 else rng.choice([size, size, 8, 16, 32, 64, 1, 2])
    return {'k': 'float', 'size': size, 'align': align}


LABELS = ['A', 'B', 'ZERO', 'one', 'two words', 'x-y', 'Lbl9', 'q', 'UP', 'down', 'semi;colon', "it's"]


def a_enum(rng):
    it = a_int(rng, size=rng.choice([1, 3, 4, 8, 12, 16, 31, 32, 33, 64]))
    lo, hi = (-(1 << (it['size'] - 1)), (1 << (it['size'] - 1)) - 1) if it['signed'] else (0, (1 << it['size']) - 1)
    members = []
    cur = 0
    for _ in range(rng.randint(1, 6)):
        label = rng.choice(LABELS) if rng.random() < 0.8 else 'L%d' % rng.randint(0, 30)
        r = rng.random()
        if r < 0.45 and lo <= cur <= hi:
            members.append(('auto', label))
            cur += 1
        elif r < 0.75:
            v = rng.choice([lo, hi, cur if lo <= cur <= hi else lo, rng.randint(lo, hi), rng.randint(max(lo, -20), min(hi, 40))])
            members.append(('val', label, v))
            cur = v + 1
        else:
            a = rng.choice([lo, cur if lo <= cur <= hi else lo, rng.randint(lo, hi), rng.randint(max(lo, -20), min(hi, 40))])
            b = rng.choice([hi, a, rng.randint(a, hi), rng.randint(a, min(hi, a + 10))])
            members.append(('rng', label, a, b))
            cur = b + 1
    return {'k': 'enum', 'int': it, 'members': members}


def enum_ranges(members):
    """What a barectf 2 enumeration `members` list means: label -> list of (lo, hi), labels in order of first
    appearance.  A bare label takes the next value: one more than the previous member's value (or than the
    upper bound of its range), 0 for the first."""
    out = OD()
    nxt = 0
    for m in members:
        if m[0] == 'auto':
            lo = hi = nxt
        elif m[0] == 'val':
            lo = hi = m[2]
        else:
            lo, hi = m[2], m[3]
        out.setdefault(m[1], []).append((lo, hi))
        nxt = hi + 1
    return out


def a_elem(rng, depth, opts):
    r = rng.random()
    if r < 0.42:
        return a_int(rng)
    if r < 0.54:
        return a_enum(rng)
    if r < 0.68:
        return a_float(rng)
    if r < 0.80:
        return {'k': 'str'}
    if depth < 3:
        # barectf 3 has no dynamic array inside an array ("Nested structure and dynamic array field types
        # are not supported"): such barectf 2 documents have no twin; drawn only when asked for
        if opts.get('nested_dynamic') and rng.random() < 0.3:
            return {'k': 'darray', 'elem': a_elem(rng, depth + 1, opts)}
        return {'k': 'sarray', 'len': rng.choice([0, 1, 1, 2, 3, 5]), 'elem': a_elem(rng, depth + 1, opts)}
    return a_int(rng)


def a_member(rng, opts):
    r = rng.random()
    if r < 0.12:
        return {'k': 'darray', 'elem': a_elem(rng, 1, opts)}
    return a_elem(rng, 0, opts)


def a_struct(rng, opts, lo=0, hi=4, used=None):
    used = set() if used is None else used
    fields = []
    for _ in range(rng.randint(lo, hi)):
        fields.append((ident(rng, used), a_member(rng, opts)))
    return {'k': 'struct', 'min_align': None if rng.random() < 0.7 else 1 << rng.randint(0, 6), 'fields': fields}


def a_uint_feature(rng, sizes, clock=None):
    ft = a_int(rng, signed=False, size=rng.choice(sizes), base='rand')
    if ft['align'] is not None and ft['align'] > 64:
        ft['align'] = 64
    ft['clock'] = clock
    return ft


# ------------------------------------------------------------------ abstract configuration

def gen_abs(rng, opts=None):
    opts = dict(opts or {})
    used = set()
    cfg = {'version': rng.choice(['2.0', '2.1', '2.2']),
           'byte_order': rng.choice(['le', 'be']),
           'prefix': None, 'options': None, 'uuid': None, 'env': None, 'log_levels': None,
           'clocks': OD(), 'streams': OD(), 'aliases': [], 'std_includes': rng.random() < 0.5,
           'll_include': rng.random() < 0.15}
    if rng.random() < 0.6:
        p = ident(rng, set(), 1, 5)
        cfg['prefix'] = p + rng.choice(['', '_', '_', '_', '__'])
    if rng.random() < 0.6:
        o = OD()
        if rng.random() < 0.7:
            o['gen-prefix-def'] = rng.random() < 0.6
        if rng.random() < 0.7:
            o['gen-default-stream-def'] = rng.random() < 0.6
        cfg['options'] = o
    if rng.random() < 0.4:
        cfg['uuid'] = '%08x-%04x-%04x-%04x-%012x' % (rng.getrandbits(32), rng.getrandbits(16), rng.getrandbits(16),
                                                    rng.getrandbits(16), rng.getrandbits(48))
    if rng.random() < 0.4:
        env = OD()
        eu = set()
        for _ in range(rng.randint(0, 3)):
            env[ident(rng, eu)] = rng.choice([rng.randint(-5, 1000), 'v%d' % rng.randint(0, 99), 'some text', ''])
        cfg['env'] = env
    if rng.random() < 0.5:
        ll = OD()
        for _ in range(rng.randint(1, 4)):
            ll[rng.choice(['LOW', 'HIGH', 'dbg', 'Warn', 'x1', 'CRIT', 'note'])] = rng.choice([0, 1, 2, 7, 14, 255, rng.randint(0, 1000)])
        cfg['log_levels'] = ll
    # clocks
    cu = set()
    for _ in range(rng.choice([0, 1, 1, 2, 3])):
        c = OD()
        if rng.random() < 0.7:
            c['freq'] = rng.choice([1, 1000, 1000000, 1000000000, rng.randint(1, 10 ** 10)])
        if rng.random() < 0.4:
            c['precision'] = rng.choice([0, 1, 23, rng.randint(0, 10 ** 6)])
        if rng.random() < 0.5:
            off = OD()
            if rng.random() < 0.7:
                off['seconds'] = rng.choice([0, 1, rng.randint(0, 2 ** 40)])
            if rng.random() < 0.7:
                off['cycles'] = rng.choice([0, 1, rng.randint(0, 2 ** 40)])
            c['offset'] = off
        if rng.random() < 0.55:
            c['absolute'] = rng.random() < 0.5
        if rng.random() < 0.4:
            c['description'] = rng.choice(['a clock', 'The Clock!', 'x', 'tick; tock'])
        if rng.random() < 0.3:
            c['uuid'] = '%08x-%04x-%04x-%04x-%012x' % (rng.getrandbits(32), rng.getrandbits(16), rng.getrandbits(16),
                                                      rng.getrandbits(16), rng.getrandbits(48))
        if rng.random() < 0.5:
            c['ctype'] = rng.choice(['uint64_t', 'uint32_t', 'unsigned long', 'unsigned long long', 'uint16_t', 'my_clock_t'])
        cfg['clocks'][ident(rng, cu, 2, 6)] = c
    # aliases (user defined): simple types only; may be built on each other by inheritance
    au = set()
    for i in range(rng.choice([0, 0, 1, 2, 3, 4])):
        name = rng.choice(['my-', 'T_', 'al']) + ident(rng, au, 1, 4)
        r = rng.random()
        if r < 0.5:
            ft = a_int(rng)
        elif r < 0.65:
            ft = a_float(rng)
        elif r < 0.8:
            ft = a_enum(rng)
        elif r < 0.9:
            ft = {'k': 'str'}
        else:
            ft = a_struct(rng, opts, 1, 3)
        cfg['aliases'].append((name, ft))
    # streams
    nstreams = rng.choice([1, 1, 1, 2, 2, 3])
    su = set()
    for si in range(nstreams):
        st = {'events': OD()}
        clock = rng.choice(list(cfg['clocks'])) if cfg['clocks'] and rng.random() < 0.75 else None
        pc = OD()
        pc['packet_size'] = a_uint_feature(rng, [8, 16, 32, 32, 64, 20, 33])
        pc['content_size'] = a_uint_feature(rng, [8, 16, 32, 32, 64, 20, 33])
        if pc['content_size']['size'] > pc['packet_size']['size']:
            pc['content_size']['size'] = pc['packet_size']['size']
        if clock is not None and rng.random() < 0.7:
            pc['timestamp_begin'] = a_uint_feature(rng, [16, 32, 64, 64, 48, 27], clock)
            pc['timestamp_end'] = a_uint_feature(rng, [16, 32, 64, 64, 48, 27], clock)
        if rng.random() < 0.5:
            pc['events_discarded'] = a_uint_feature(rng, [8, 16, 32, 64, 11])
        # order of the reserved members in the document does not matter for the meaning
        st['pc'] = pc
        extra = []
        eu = set()
        for _ in range(rng.choice([0, 0, 0, 1, 2, 3])):
            extra.append((ident(rng, eu), a_member(rng, opts)))
        st['pc_extra'] = extra
        st['pc_min_align'] = None if rng.random() < 0.8 else 1 << rng.randint(0, 5)
        nev = rng.choice([1, 1, 2, 2, 3, 4])
        eh = OD()
        if nev > 1 or rng.random() < 0.5:
            eh['id'] = a_uint_feature(rng, [8, 16, 32, 64, 5, 3] if nev <= 8 else [8, 16])
        if clock is not None and rng.random() < 0.7:
            eh['timestamp'] = a_uint_feature(rng, [16, 32, 64, 64, 40, 27], clock)
        st['eh'] = eh if (eh or rng.random() < 0.3) else None
        st['clock'] = clock if ('timestamp_begin' in pc or 'timestamp' in (eh or {})) else None
        st['ec'] = a_struct(rng, opts, 1, 3) if rng.random() < 0.3 else None
        evu = set()
        for ei in range(nev):
            ev = {'log_level': None, 'ctx': None, 'payload': None}
            r = rng.random()
            if r < 0.3:
                ev['log_level'] = rng.choice([0, 1, 5, 14, 15, rng.randint(0, 300)])
            elif r < 0.55 and cfg['log_levels']:
                ev['log_level'] = rng.choice(list(cfg['log_levels']))
            elif r < 0.62 and cfg['ll_include']:
                ev['log_level'] = rng.choice(['EMERG', 'ALERT', 'CRIT', 'ERR', 'WARNING', 'NOTICE', 'INFO', 'DEBUG'])
            if rng.random() < 0.35:
                ev['ctx'] = a_struct(rng, opts, 1, 3)
            if rng.random() < 0.9:
                ev['payload'] = a_struct(rng, opts, 0 if (ev['ctx'] or st['ec'] or eh) else 1, 5)
            st['events'][ident(rng, evu, 1, 7)] = ev
        cfg['streams'][ident(rng, su, 1, 7)] = st
    # packet header
    ph = OD()
    if rng.random() < 0.7:
        ph['magic'] = a_uint_feature(rng, [32])
    if cfg['uuid'] is not None and rng.random() < 0.6:
        ph['uuid'] = {'k': 'uuid', 'align': rng.choice([None, 8, 8] + ([1, 2, 4] if opts.get('uuid_small_align') else []))}
    if nstreams > 1 or rng.random() < 0.5:
        ph['stream_id'] = a_uint_feature(rng, [8, 16, 32, 64, 4, 2] if nstreams <= 4 else [8])
    cfg['ph'] = ph if (ph or rng.random() < 0.5) else None
    cfg['ph_min_align'] = None if rng.random() < 0.85 else 1 << rng.randint(0, 5)
    # default stream
    cfg['default_stream'] = rng.choice(list(cfg['streams'])) if rng.random() < 0.5 else None
    cfg['default_via'] = rng.choice(['$default', '$default-stream'])
    return cfg


# ------------------------------------------------------------------ presentation (how a type is written)

class Pres:
    """Decides, the same way for both printers, WHERE a type is written through an alias, a standard
    alias of stdint/stdfloat, or inheritance.  A decision is keyed by the abstract node it is about,
    drawn the first time it is asked and replayed for the other dialect."""

    def __init__(self, rng, cfg):
        self.rng = rng
        self.cfg = cfg
        self.table = {}
        self.counts = collections.Counter()
        self.counting = True

    def choose(self, key, options):
        if key not in self.table:
            self.table[key] = self.rng.choice(options)
        return self.table[key]

    def count(self, what):
        if self.counting:
            self.counts[what] += 1


# ------------------------------------------------------------------ printers

class Printer:
    def __init__(self, cfg, pres, dialect, spell_rng):
        self.cfg, self.pres, self.d, self.srng = cfg, pres, dialect, spell_rng
        self.v2 = dialect == 2

    # --- leaf spellings (free choices that do not change the meaning)
    def sp(self, *alts):
        return self.srng.choice(alts)

    def int_node(self, ft, with_clock=True):
        n = OD()
        if self.v2:
            n['class'] = self.sp('int', 'integer')
            n['size'] = ft['size']
            if ft['signed']:
                n['signed'] = True
            elif self.srng.random() < 0.4 or ft.get('clock'):
                n['signed'] = False
            if ft['align'] is not None:
                n['align'] = ft['align']
            if ft['base'] is not None:
                n['base'] = self.base_sp(ft['base'])
            if self.srng.random() < 0.1:
                n['byte-order'] = self.bo_sp(self.cfg['byte_order'])
            if self.srng.random() < 0.05:
                n['encoding'] = self.sp('none', 'None', 'NONE')
            if with_clock and ft.get('clock'):
                n['property-mappings'] = [OD([('type', 'clock'), ('name', ft['clock']), ('property', 'value')])]
        else:
            n['class'] = self.sp('sint', 'signed-int', 'signed-integer') if ft['signed'] else self.sp('uint', 'unsigned-int', 'unsigned-integer')
            n['size'] = ft['size']
            if ft['align'] is not None:
                n['alignment'] = ft['align']
            if ft['base'] is not None:
                n['preferred-display-base'] = self.base_sp(ft['base'])
        return n

    def base_sp(self, b):
        return self.srng.choice({'bin': ['bin', 'binary'], 'oct': ['oct', 'octal'], 'dec': ['dec', 'decimal'], 'hex': ['hex', 'hexadecimal']}[b])

    def bo_sp(self, b):
        return self.srng.choice({'le': ['le', 'little', 'little-endian'], 'be': ['be', 'big', 'big-endian']}[b])

    def ft(self, ft, allow_alias=True):
        k = ft['k']
        if allow_alias:
            via = self.via(ft)
            if via is not None:
                return via
        if k == 'int':
            return self.int_node(ft)
        if k == 'float':
            n = OD()
            if self.v2:
                n['class'] = self.sp('flt', 'float', 'floating-point')
                n['size'] = OD([('exp', 8), ('mant', 24)]) if ft['size'] == 32 else OD([('exp', 11), ('mant', 53)])
                if ft['align'] is not None:
                    n['align'] = ft['align']
                if self.srng.random() < 0.15:
                    n['byte-order'] = self.bo_sp(self.cfg['byte_order'])     # same as the trace: no meaning change
            else:
                n['class'] = 'real'
                n['size'] = ft['size']
                if ft['align'] is not None:
                    n['alignment'] = ft['align']
            return n
        if k == 'enum':
            if self.v2:
                n = OD()
                n['class'] = self.sp('enum', 'enumeration')
                n['value-type'] = self.int_node(ft['int'])
                mem = []
                for m in ft['members']:
                    if m[0] == 'auto':
                        mem.append(m[1])
                    elif m[0] == 'val':
                        mem.append(OD([('label', m[1]), ('value', m[2])]))
                    else:
                        mem.append(OD([('label', m[1]), ('value', [m[2], m[3]])]))
                n['members'] = mem
                return n
            n = self.int_node(ft['int'])
            n['class'] = self.sp('senum', 'signed-enum', 'signed-enumeration') if ft['int']['signed'] else self.sp('uenum', 'unsigned-enum', 'unsigned-enumeration')
            mp = OD()
            for label, rgs in enum_ranges(ft['members']).items():
                mp[label] = [lo if (lo == hi and self.srng.random() < 0.8) else [lo, hi] for lo, hi in rgs]
            n['mappings'] = mp
            return n
        if k == 'str':
            n = OD([('class', self.sp('str', 'string'))])
            if self.v2 and self.srng.random() < 0.1:
                n['encoding'] = self.sp('utf8', 'UTF-8', 'ascii', 'none')
            return n
        if k == 'sarray':
            if self.v2:
                return OD([('class', 'array'), ('length', ft['len']), ('element-type', self.ft(ft['elem']))])
            return OD([('class', 'static-array'), ('length', ft['len']), ('element-field-type', self.ft(ft['elem']))])
        if k == 'darray':
            if self.v2:
                return OD([('class', 'array'), ('length', 'dynamic'), ('element-type', self.ft(ft['elem']))])
            return OD([('class', 'dynamic-array'), ('element-field-type', self.ft(ft['elem']))])
        if k == 'uuid':
            el = {'k': 'int', 'size': 8, 'signed': False, 'align': ft['align'], 'base': None}
            el_node = self.int_node(el)
            if self.v2:
                return OD([('class', 'array'), ('length', 16), ('element-type', el_node)])
            return OD([('class', 'static-array'), ('length', 16), ('element-field-type', el_node)])
        if k == 'struct':
            return self.struct(ft['min_align'], ft['fields'])
        raise AssertionError(k)

    def struct(self, min_align, fields, pre=None):
        n = OD([('class', self.sp('struct', 'structure'))])
        if min_align is not None:
            n['min-align' if self.v2 else 'minimum-alignment'] = min_align
        if self.v2:
            f = OD(pre or [])
            for name, ft in fields:
                f[name] = self.ft(ft)
            how = True if f else self.pres.choose(('empty', id(fields)), [True, False, None])
            if how is None:
                n['fields'] = None                 # `fields: null` = no member (fix 616725c of /repo)
            elif how:
                n['fields'] = f
        else:
            m = []
            for name, ft in fields:
                m.append(OD([(name, self.member(ft))]))
            if m or self.pres.choose(('empty', id(fields)), [True, False, None]):
                n['members'] = m
        return n

    def member(self, ft):
        x = self.ft(ft)
        if isinstance(x, str) and self.srng.random() < 0.5:
            return x                       # `- name: alias` shorthand of barectf 3
        return OD([('field-type', x)])

    # --- aliases / standard aliases / inheritance
    def via(self, ft):
        cfg = self.cfg
        k = ft['k']
        if ft.get('clock'):
            # a mapped integer: barectf 2 may inherit from an alias and add the mapping
            cands = [name for name, a in cfg['aliases'] if a['k'] == 'int' and a['size'] == ft['size'] and not a['signed']
                     and a['align'] == ft['align'] and a['base'] == ft['base']]
            if cands and self.pres.choose(('mapped?', id(ft)), [True, False]):
                name = self.pres.choose(('mapped', id(ft)), cands)
                self.pres.count('inherit-alias-plus-mapping')
                if self.v2:
                    return OD([(self.sp('$inherit', 'inherit'), name),
                               ('property-mappings', [OD([('type', 'clock'), ('name', ft['clock']), ('property', 'value')])])])
                return name
            return None
        # exact user alias
        cands = [name for name, a in cfg['aliases'] if a == ft]
        if cands and self.pres.choose(('alias?', id(ft)), [True, True, False]):
            self.pres.count('user-alias')
            return self.pres.choose(('alias', id(ft)), cands)
        if k == 'int':
            # inheritance from a user alias of the same kind with overrides
            cands = [(name, a) for name, a in cfg['aliases'] if a['k'] == 'int']
            if cands and self.pres.choose(('inh?', id(ft)), [True, False, False]):
                name, a = self.pres.choose(('inh', id(ft)), cands)
                self.pres.count('inherit-user-alias')
                return self.inherit_int(name, a, ft)
            if cfg['std_includes'] and ft['base'] is None and (ft['size'], ft['signed'], ft['align']) in STD_INT \
                    and self.pres.choose(('std?', id(ft)), [True, True, False]):
                self.pres.count('std-alias')
                return STD_INT[(ft['size'], ft['signed'], ft['align'])][0 if self.v2 else 1]
            if cfg['std_includes'] and ft['size'] in (8, 16, 32, 64) and self.pres.choose(('inhstd?', id(ft)), [True, False, False, False]):
                self.pres.count('inherit-std-alias')
                a = {'k': 'int', 'size': ft['size'], 'signed': False, 'align': ft['size'], 'base': None}
                return self.inherit_int('uint%d' % ft['size'], a, ft)
        if k == 'float' and cfg['std_includes'] and (ft['size'], ft['align']) in STD_FLOAT:
            names = STD_FLOAT[(ft['size'], ft['align'])]
            if ft['align'] == ft['size'] and self.pres.choose(('stdf?', id(ft)), [True, True, False]):
                self.pres.count('std-alias')
                return names[0 if self.v2 else 1]
        if k == 'float' and cfg['std_includes'] and self.pres.choose(('inhstdf?', id(ft)), [True, False, False, False]):
            # barectf 2's stdfloat.yaml only has float/double: other alignments by inheritance
            self.pres.count('inherit-std-alias')
            base = 'float' if ft['size'] == 32 else 'double'
            n = OD([('$inherit', base)])
            n['align' if self.v2 else 'alignment'] = ft['align']      # None -> `null`: back to the default
            return n
        if k == 'struct':
            cands = [(name, a) for name, a in cfg['aliases'] if a['k'] == 'struct' and a['min_align'] == ft['min_align']
                     and ft['fields'][:len(a['fields'])] == a['fields'] and len(ft['fields']) > len(a['fields'])]
            if cands and self.pres.choose(('inhs?', id(ft)), [True, False]):
                name, a = self.pres.choose(('inhs', id(ft)), cands)
                self.pres.count('inherit-struct-alias')
                n = OD([('$inherit', name)])
                rest = ft['fields'][len(a['fields']):]
                if self.v2:
                    n['fields'] = OD((nm, self.ft(f)) for nm, f in rest)
                else:
                    n['members'] = [OD([(nm, self.member(f))]) for nm, f in rest]
                return n
        return None

    def inherit_int(self, name, a, ft):
        if not self.v2 and a['signed'] != ft['signed']:
            # barectf 3: an inheriting field type cannot change its class (signedness): written in full
            return self.int_node(ft)
        n = OD([(self.sp('$inherit', 'inherit') if self.v2 else '$inherit', name)])
        if self.v2:
            if a['size'] != ft['size']:
                n['size'] = ft['size']
            if a['signed'] != ft['signed']:
                n['signed'] = ft['signed']
            if a['align'] != ft['align']:
                n['align'] = ft['align']
            if a['base'] != ft['base']:
                n['base'] = None if ft['base'] is None else self.base_sp(ft['base'])
        else:
            if a['size'] != ft['size']:
                n['size'] = ft['size']
            if a['signed'] != ft['signed']:
                n['class'] = 'sint' if ft['signed'] else 'uint'
            if a['align'] != ft['align']:
                n['alignment'] = ft['align']
            if a['base'] != ft['base']:
                n['preferred-display-base'] = None if ft['base'] is None else self.base_sp(ft['base'])
        return n

    # --- objects
    def clock(self, c):
        n = OD()
        ren = {'freq': 'frequency', 'precision': 'precision', 'offset': 'offset', 'absolute': 'origin-is-unix-epoch',
               'description': 'description', 'uuid': 'uuid', 'ctype': '$c-type'}
        ren2 = {'freq': 'freq', 'precision': 'error-cycles', 'offset': 'offset', 'absolute': 'absolute',
                'description': 'description', 'uuid': 'uuid', 'ctype': None}
        for k, v in c.items():
            if self.v2:
                key = ren2[k] or self.sp('$return-ctype', 'return-ctype')
            else:
                key = ren[k]
            n[key] = copy.deepcopy(v)
        return n

    def event(self, ev):
        n = OD()
        if ev['log_level'] is not None:
            n['log-level'] = ev['log_level']
        if ev['ctx'] is not None:
            n['context-type' if self.v2 else 'specific-context-field-type'] = self.ft(ev['ctx'])
        if ev['payload'] is not None:
            n['payload-type' if self.v2 else 'payload-field-type'] = self.ft(ev['payload'])
        return n

    def feature(self, ft):
        """barectf 3 feature value for an abstract member that may be absent."""
        return False if ft is None else self.ft(ft)


def shuffled(rng, items):
    items = list(items)
    rng.shuffle(items)
    return items


def print_v2(cfg, pres, srng, order_rng):
    P = Printer(cfg, pres, 2, srng)
    root = OD()
    root['version'] = cfg['version']
    if cfg['prefix'] is not None:
        root['prefix'] = cfg['prefix']
    if cfg['options'] is not None:
        root['options'] = copy.deepcopy(cfg['options'])
    meta = OD()
    inc = []
    if cfg['std_includes']:
        inc += ['stdint.yaml', 'stdfloat.yaml']
    if cfg['ll_include']:
        inc.append('lttng-ust-log-levels.yaml')
    if inc:
        meta['$include'] = inc
    if cfg['aliases'] or cfg['std_includes']:
        ta = OD()
        for name, ft in cfg['aliases']:
            ta[name] = P.ft(ft, allow_alias=False)
        meta['type-aliases'] = ta
    if cfg['log_levels'] is not None:
        # lttng-ust-log-levels.yaml of include/2 uses `$log-levels`; the two spellings cannot be mixed
        meta['$log-levels' if cfg['ll_include'] else srng.choice(['$log-levels', 'log-levels'])] = copy.deepcopy(cfg['log_levels'])
    if cfg['env'] is not None:
        meta['env'] = copy.deepcopy(cfg['env'])
    if cfg['clocks']:
        meta['clocks'] = OD((k, P.clock(c)) for k, c in cfg['clocks'].items())
    trace = OD()
    trace['byte-order'] = P.bo_sp(cfg['byte_order'])
    if cfg['uuid'] is not None:
        trace['uuid'] = cfg['uuid']
    if cfg['ph'] is not None:
        # the reserved members may come in any order in the document
        pre = [(k, P.ft(v)) for k, v in cfg['ph'].items()]
        n = OD([('class', 'struct')])
        if cfg['ph_min_align'] is not None:
            n['min-align'] = cfg['ph_min_align']
        n['fields'] = OD(pre)
        if not pre:
            how = order_rng.choice(['empty', 'null', 'absent'])
            if how == 'null':
                n['fields'] = None
            elif how == 'absent':
                del n['fields']
        trace['packet-header-type'] = n
    meta['trace'] = trace
    if cfg['default_stream'] is not None and cfg['default_via'] == '$default-stream':
        meta['$default-stream'] = cfg['default_stream']
    streams = OD()
    for sname, st in cfg['streams'].items():
        s = OD()
        if cfg['default_stream'] == sname and cfg['default_via'] == '$default':
            s['$default'] = True
        # reserved members and the user's extra members interleaved in any order
        items = [(k, v) for k, v in st['pc'].items()] + list(st['pc_extra'])
        res = [i for i in items if i[0] in st['pc']]
        ext = [i for i in items if i[0] not in st['pc']]
        res = shuffled(order_rng, res)
        merged = []
        while res or ext:
            if res and (not ext or order_rng.random() < 0.6):
                merged.append(res.pop(0))
            else:
                merged.append(ext.pop(0))
        pcn = OD([('class', 'struct')])
        if st['pc_min_align'] is not None:
            pcn['min-align'] = st['pc_min_align']
        pcn['fields'] = OD((k, P.ft(v)) for k, v in merged)
        s['packet-context-type'] = pcn
        if st['eh'] is not None:
            ehn = OD([('class', 'struct'), ('fields', OD((k, P.ft(v)) for k, v in shuffled(order_rng, st['eh'].items())))])
            if not st['eh']:
                how = order_rng.choice(['empty', 'null', 'absent'])     # all three mean "no event header member"
                if how == 'null':
                    ehn['fields'] = None
                elif how == 'absent':
                    del ehn['fields']
            s['event-header-type'] = ehn
        if st['ec'] is not None:
            s['event-context-type'] = P.ft(st['ec'])
        s['events'] = OD((en, P.event(ev)) for en, ev in st['events'].items())
        streams[sname] = s
    meta['streams'] = streams
    root['metadata'] = meta
    return root


def v3_prefix(p, srng):
    """The two barectf 3 prefixes of a barectf 2 prefix p: identifiers keep p, file names use p without its
    trailing underscores."""
    q = p
    while q.endswith('_'):
        q = q[:-1]
    if p == q + '_' and q and srng.random() < 0.5:
        return q          # barectf 3: a single string q means identifier prefix q_ and file name prefix q
    return OD([('identifier', p), ('file-name', q)])


def print_v3(cfg, pres, srng):
    P = Printer(cfg, pres, 3, srng)
    root = OD()
    cg = OD()
    if cfg['prefix'] is not None:
        cg['prefix'] = v3_prefix(cfg['prefix'], srng)
    if cfg['options']:
        h = OD()
        if 'gen-prefix-def' in cfg['options']:
            h['identifier-prefix-definition'] = cfg['options']['gen-prefix-def']
        if 'gen-default-stream-def' in cfg['options']:
            h['default-data-stream-type-name-definition'] = cfg['options']['gen-default-stream-def']
        cg['header'] = h
    if cg:
        root['options'] = OD([('code-generation', cg)])
    trace = OD()
    if cfg['env'] is not None:
        trace['environment'] = copy.deepcopy(cfg['env'])
    tt = OD()
    inc = []
    if cfg['std_includes']:
        inc += ['stdint.yaml', 'stdreal.yaml']
    if cfg['ll_include']:
        inc.append('lttng-ust-log-levels.yaml')
    if inc:
        tt['$include'] = inc
    if cfg['aliases']:
        fa = OD()
        for name, ft in cfg['aliases']:
            fa[name] = P.ft(ft, allow_alias=False)
        tt['$field-type-aliases'] = fa
    tt['trace-byte-order'] = P.bo_sp(cfg['byte_order'])
    if cfg['uuid'] is not None:
        tt['uuid'] = cfg['uuid']
    if cfg['log_levels'] is not None:
        tt['$log-level-aliases'] = copy.deepcopy(cfg['log_levels'])
    if cfg['clocks']:
        tt['clock-types'] = OD((k, P.clock(c)) for k, c in cfg['clocks'].items())
    ph = cfg['ph'] or {}
    tt['$features'] = OD([('magic-field-type', P.feature(ph.get('magic'))),
                          ('uuid-field-type', P.feature(ph.get('uuid'))),
                          ('data-stream-type-id-field-type', P.feature(ph.get('stream_id')))])
    dsts = OD()
    for sname, st in cfg['streams'].items():
        s = OD()
        if cfg['default_stream'] == sname:
            s['$is-default'] = True
        if st['clock'] is not None:
            s['$default-clock-type-name'] = st['clock']
        pc = st['pc']
        eh = st['eh'] or {}
        s['$features'] = OD([
            ('packet', OD([('total-size-field-type', P.feature(pc['packet_size'])),
                           ('content-size-field-type', P.feature(pc['content_size'])),
                           ('beginning-timestamp-field-type', P.feature(pc.get('timestamp_begin'))),
                           ('end-timestamp-field-type', P.feature(pc.get('timestamp_end'))),
                           ('discarded-event-records-counter-snapshot-field-type', P.feature(pc.get('events_discarded')))])),
            ('event-record', OD([('type-id-field-type', P.feature(eh.get('id'))),
                                 ('timestamp-field-type', P.feature(eh.get('timestamp')))]))])
        if st['pc_extra']:
            s['packet-context-field-type-extra-members'] = [OD([(k, P.member(v))]) for k, v in st['pc_extra']]
        if st['ec'] is not None:
            s['event-record-common-context-field-type'] = P.ft(st['ec'])
        s['event-record-types'] = OD((en, P.event(ev)) for en, ev in st['events'].items())
        dsts[sname] = s
    tt['data-stream-types'] = dsts
    trace['type'] = tt
    root['trace'] = trace
    return root


# ------------------------------------------------------------------ YAML text

class _Dumper(yaml.SafeDumper):
    pass


def _od_repr(dumper, data):
    return dumper.represent_mapping('tag:yaml.org,2002:map', data.items())


_Dumper.add_representer(OD, _od_repr)
_Dumper.ignore_aliases = lambda self, data: True


def yaml_text(tree, v3):
    body = yaml.dump(tree, Dumper=_Dumper, default_flow_style=False, sort_keys=False, width=1000)
    return (V3_HEADER if v3 else '') + body


def both(cfg, rng):
    """(v2 tree, v3 tree, presentation counters)."""
    import random
    pres = Pres(random.Random(rng.getrandbits(64)), cfg)
    t2 = print_v2(cfg, pres, random.Random(rng.getrandbits(64)), random.Random(rng.getrandbits(64)))
    pres.counting = False
    t3 = print_v3(cfg, pres, random.Random(rng.getrandbits(64)))
    return t2, t3, pres.counts


def classify(cfg):
    """Counters describing what an abstract configuration contains (input distribution)."""
    c = collections.Counter()

    def walk(ft, where):
        k = ft['k']
        c['ft:' + k] += 1
        if k == 'int':
            c['int:size:%s' % ('sub-byte' if ft['size'] < 8 else 'byte-multiple' if ft['size'] % 8 == 0 else 'odd')] += 1
            c['int:align:%s' % ft['align']] += 1
            c['int:signed' if ft['signed'] else 'int:unsigned'] += 1
            if ft['base']:
                c['int:base:' + ft['base']] += 1
            if ft.get('clock'):
                c['int:mapped-to-clock'] += 1
        elif k == 'float':
            c['float:%d:align:%s' % (ft['size'], ft['align'])] += 1
        elif k == 'enum':
            walk(ft['int'], where)
            for m in ft['members']:
                c['enum-member:' + m[0]] += 1
            if len(set(m[1] for m in ft['members'])) < len(ft['members']):
                c['enum:repeated-label'] += 1
            if any(a[0] == 'auto' and b[0] == 'rng' for b, a in zip(ft['members'], ft['members'][1:])):
                c['enum:auto-after-range'] += 1
        elif k in ('sarray', 'darray'):
            d, e = 1, ft['elem']
            while e['k'] in ('sarray', 'darray'):
                d, e = d + 1, e['elem']
            c['array:nesting:%d' % d] += 1
            if k == 'sarray':
                c['sarray:len:%s' % ('0' if ft['len'] == 0 else '>0')] += 1
            walk(ft['elem'], where)
        elif k == 'struct':
            c['struct:members:%d' % len(ft['fields'])] += 1
            for _, f in ft['fields']:
                walk(f, where)

    c['byte-order:' + cfg['byte_order']] += 1
    c['version:' + cfg['version']] += 1
    c['prefix:' + ('default' if cfg['prefix'] is None else 'trailing_%d' % (len(cfg['prefix']) - len(cfg['prefix'].rstrip('_'))))] += 1
    c['options:' + ('none' if cfg['options'] is None else ','.join('%s=%s' % kv for kv in cfg['options'].items()) or 'empty')] += 1
    c['clocks:%d' % len(cfg['clocks'])] += 1
    for cl in cfg['clocks'].values():
        for k in cl:
            c['clock-prop:' + k] += 1
        if 'absolute' not in cl:
            c['clock:absolute-absent(S17)'] += 1
    c['streams:%d' % len(cfg['streams'])] += 1
    c['uuid:' + ('set' if cfg['uuid'] else 'none')] += 1
    c['packet-header:' + ('absent' if cfg['ph'] is None else '+'.join(cfg['ph']) or 'empty')] += 1
    c['default-stream:' + ('none' if cfg['default_stream'] is None else cfg['default_via'])] += 1
    c['log-levels:' + ('none' if cfg['log_levels'] is None else 'aliases')] += 1
    c['aliases:%d' % len(cfg['aliases'])] += 1
    c['std-includes:%s' % cfg['std_includes']] += 1
    for st in cfg['streams'].values():
        c['events-per-stream:%d' % len(st['events'])] += 1
        c['pc:' + '+'.join(sorted(st['pc']))] += 1
        c['eh:' + ('absent' if st['eh'] is None else '+'.join(sorted(st['eh'])) or 'empty')] += 1
        c['pc-extra:%d' % len(st['pc_extra'])] += 1
        c['stream-clock:' + ('yes' if st['clock'] else 'no')] += 1
        for f in st['pc'].values():
            walk(f, 'pc')
        for _, f in st['pc_extra']:
            walk(f, 'pcx')
        for f in (st['eh'] or {}).values():
            walk(f, 'eh')
        if st['ec']:
            c['event-common-context'] += 1
            walk(st['ec'], 'ec')
        for ev in st['events'].values():
            ll = ev['log_level']
            c['log-level:' + ('none' if ll is None else 'int' if isinstance(ll, int) else 'alias')] += 1
            if ev['ctx']:
                c['event-context'] += 1
                walk(ev['ctx'], 'ctx')
            if ev['payload']:
                walk(ev['payload'], 'pl')
            else:
                c['event:no-payload'] += 1
    return c
