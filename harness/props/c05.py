"""C05: proof in coq/theories/Props/C05.v; tie = correspondence of the Coq tracer / layout models with
the compiled generated tracer plus implementation-side oracles (harness/tracer_props.py)."""
from common import prepare
import tracer_props as tp


def run(ctx):
    prepare(ctx)
    tp.campaign(ctx, 'C05')
