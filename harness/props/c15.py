"""C15: the metadata states every configured descriptive attribute in well-formed TSDL.

Proof: Props/C15.v (escape_dq round trip through a TSDL string literal reader; adequacy of the
template emission guards regenerated into Gen/MetaGuards.v).
Tie + oracle on the real code:
  * metadata generated for configurations rich in boundary values (0, 64-bit extremes, negative
    environment values / enumeration ranges / clock offsets, strings with quotes, backslashes,
    new-lines, non-ASCII) is parsed by harness/tsdl.py (strict CTF 1.8 grammar) and compared
    attribute by attribute with the configuration (YAML document + documented defaults, and
    barectf.config objects built directly);
  * Gen/PyFuns.escape_dq vs the real _filt_escape_dq on enumerated strings; the literal found in
    the real metadata read back by the Coq reader (cases.v);
  * the guard model (row emitted iff guards pass under Jinja truthiness) vs the real generator on
    None / falsy / truthy values of each guarded attribute;
  * witnesses of the two refutations replayed: log level 0 (S2), new-line in a string.
"""
import io
import os
import re
import uuid as uuidp

import bt
import tsdl
from common import prepare, run_cases_v
from props import c14cfg as G

BO = {'le': 'le', 'little': 'le', 'little-endian': 'le', 'be': 'be', 'big': 'be', 'big-endian': 'be'}
BASES = {'bin': 2, 'binary': 2, 'oct': 8, 'octal': 8, 'dec': 10, 'decimal': 10, 'hex': 16, 'hexadecimal': 16}


def coq_str(s):
    return '[' + ';'.join(str(ord(c)) for c in s) + ']'


class Cmp:
    """Collects attribute mismatches of one metadata file."""

    def __init__(self):
        self.bad = []      # (key, message)
        self.n = 0

    def eq(self, what, got, want, key='C15-attribute-mismatch'):
        self.n += 1
        if got != want or type(got) is not type(want) and not (isinstance(got, str) and isinstance(want, str)):
            self.bad.append((key, '%s: metadata has %r, configuration says %r' % (what, got, want)))


def is_int_cls(c):
    return c in ('uint', 'unsigned-int', 'unsigned-integer', 'sint', 'signed-int', 'signed-integer')


def is_enum_cls(c):
    return c in ('uenum', 'unsigned-enum', 'unsigned-enumeration', 'senum', 'signed-enum', 'signed-enumeration')


def cmp_int(c, what, t, ft, mapped=None):
    if not isinstance(t, tsdl.Integer):
        c.eq(what + ' type', type(t).__name__, 'Integer')
        return
    signed = ft['class'] in ('sint', 'signed-int', 'signed-integer', 'senum', 'signed-enum', 'signed-enumeration')
    a = t.attrs
    c.eq(what + '.signed', a.get('signed'), tsdl.Ident('true' if signed else 'false'))
    c.eq(what + '.size', a.get('size'), ft['size'])
    c.eq(what + '.align', a.get('align'), ft.get('alignment') or (8 if ft['size'] % 8 == 0 else 1))
    c.eq(what + '.base', a.get('base'), BASES[ft.get('preferred-display-base') or 'dec'])
    c.eq(what + '.map', a.get('map'), tsdl.Ident('clock.%s.value' % mapped) if mapped else None)


def cmp_ft(c, what, t, ft):
    cls = ft['class']
    if is_int_cls(cls):
        cmp_int(c, what, t, ft)
    elif is_enum_cls(cls):
        if not isinstance(t, tsdl.Enum):
            c.eq(what + ' type', type(t).__name__, 'Enum')
            return
        cmp_int(c, what + ' container', t.container, ft)
        want = set()
        for label, rgs in ft['mappings'].items():
            for rg in rgs:
                lo, hi = (rg, rg) if isinstance(rg, int) else rg
                want.add((label, lo, hi))
        got = set(t.entries)
        c.eq(what + ' labels and ranges', sorted(got), sorted(want), 'C15-enum-mismatch')
    elif cls == 'real':
        if not isinstance(t, tsdl.FloatingPoint):
            c.eq(what + ' type', type(t).__name__, 'FloatingPoint')
            return
        c.eq(what + '.mant_dig', t.attrs.get('mant_dig'), 24 if ft['size'] == 32 else 53)
        c.eq(what + '.exp_dig', t.attrs.get('exp_dig'), 8 if ft['size'] == 32 else 11)
        c.eq(what + '.align', t.attrs.get('align'), ft.get('alignment') or 8)
    elif cls in ('str', 'string'):
        c.eq(what + ' type', type(t).__name__, 'String')
    elif cls == 'static-array':
        if not isinstance(t, tsdl.Array):
            c.eq(what + ' type', type(t).__name__, 'Array')
            return
        c.eq(what + ' length', t.length, ft['length'])
        cmp_ft(c, what + '[]', t.elem, ft['element-field-type'])
    else:
        c.eq(what + ' class', cls, 'known')


def cmp_struct(c, what, t, st, skip=0):
    """User members of a structure (after `skip` generated feature members)."""
    if st is None:
        return
    if not isinstance(t, tsdl.Struct):
        c.eq(what + ' type', type(t).__name__, 'Struct')
        return
    fields = list(t.fields)[skip:]
    want = []
    for m in st.get('members') or []:
        (name, node), = m.items()
        ft = node['field-type']
        if ft['class'] == 'dynamic-array':
            want.append(('__%s_len' % name, {'class': 'uint', 'size': 32, 'alignment': 8}))
            want.append((name, ft))
        else:
            want.append((name, ft))
    c.eq(what + ' member names', [f.name for f in fields], [n for n, _ in want])
    for f, (n, ft) in zip(fields, want):
        if ft['class'] == 'dynamic-array':
            if not isinstance(f.type, tsdl.Sequence):
                c.eq('%s.%s type' % (what, n), type(f.type).__name__, 'Sequence')
            else:
                c.eq('%s.%s length field' % (what, n), f.type.length, '__%s_len' % n)
                cmp_ft(c, '%s.%s[]' % (what, n), f.type.elem, ft['element-field-type'])
        else:
            cmp_ft(c, '%s.%s' % (what, n), f.type, ft)
    if 'minimum-alignment' in st and st['minimum-alignment']:
        c.n += 1
        if t.align is None or t.align < st['minimum-alignment']:
            c.bad.append(('C15-attribute-mismatch', '%s: align(%s) below the configured minimum alignment %s' % (what, t.align, st['minimum-alignment'])))


def compare_yaml(doc, md, c):
    """Attribute-by-attribute comparison of parsed metadata `md` with the YAML document."""
    tt = doc['trace']['type']
    tr = md.block('trace')
    c.eq('trace.major', tr.attrs.get('major'), 1)
    c.eq('trace.minor', tr.attrs.get('minor'), 8)
    bo = BO[tt.get('native-byte-order') or tt.get('trace-byte-order')]
    c.eq('trace.byte_order', tr.attrs.get('byte_order'), tsdl.Ident(bo))
    c.eq('trace.uuid', tr.attrs.get('uuid'), tsdl.Str(tt['uuid']) if tt.get('uuid') else None)
    env = md.block('env')
    user_env = doc['trace'].get('environment') or {}
    if 'domain' not in user_env:
        c.eq('env.domain', env.attrs.get('domain'), tsdl.Str('bare'))
    if 'tracer_name' not in user_env:
        c.eq('env.tracer_name', env.attrs.get('tracer_name'), tsdl.Str('barectf'))
    for k in ('tracer_major', 'tracer_minor', 'tracer_patch'):
        c.n += 1
        if k not in user_env and not isinstance(env.attrs.get(k), int):
            c.bad.append(('C15-attribute-mismatch', 'env.%s missing or not an integer' % k))
    for k, v in (doc['trace'].get('environment') or {}).items():
        c.eq('env.' + k, env.attrs.get(k), tsdl.Str(v) if isinstance(v, str) else v, 'C15-env-mismatch')
    dsts = tt['data-stream-types']
    clocks = tt.get('clock-types') or {}
    used = sorted({d['$default-clock-type-name'] for d in dsts.values() if d.get('$default-clock-type-name')})
    got_clocks = {str(b.attrs.get('name')): b for b in md.all('clock')}
    c.eq('clock names', sorted(got_clocks), used)
    for n in used:
        if n not in got_clocks:
            continue
        a, ck = got_clocks[n].attrs, clocks[n]
        off = ck.get('offset') or {}
        c.eq('clock %s.freq' % n, a.get('freq'), ck.get('frequency') or 1000000000)
        c.eq('clock %s.precision' % n, a.get('precision'), ck.get('precision') or 0)
        c.eq('clock %s.offset_s' % n, a.get('offset_s'), off.get('seconds') or 0)
        c.eq('clock %s.offset' % n, a.get('offset'), off.get('cycles') or 0)
        absolute = ck.get('origin-is-unix-epoch')
        c.eq('clock %s.absolute' % n, a.get('absolute'), tsdl.Ident('true' if (absolute is None or absolute) else 'false'))
        c.eq('clock %s.uuid' % n, a.get('uuid'), tsdl.Str(ck['uuid']) if ck.get('uuid') else None)
        d = ck.get('description')
        c.eq('clock %s.description' % n, a.get('description'), tsdl.Str(d) if d else None, 'C15-clock-description-mismatch')
    feats = tt.get('$features') or {}
    dst_id_on = feats.get('data-stream-type-id-field-type', True) is not False
    streams = md.all('stream')
    events = md.all('event')
    names = sorted(dsts)
    c.eq('number of stream blocks', len(streams), len(names))
    ev_by = {}
    for e in events:
        ev_by.setdefault(e.attrs.get('stream_id'), []).append(e)
    for sid, dn in enumerate(names):
        d = dsts[dn]
        sb = None
        for s in streams:
            if (s.attrs.get('id') == sid) if dst_id_on else True:
                sb = s
                break
        if sb is None:
            c.bad.append(('C15-attribute-mismatch', 'no stream block with id %d (stream %s)' % (sid, dn)))
            continue
        clk = d.get('$default-clock-type-name')
        pc = sb.types.get('packet.context')
        # clock mapping of the timestamp features
        if isinstance(pc, tsdl.Struct):
            for f in pc.fields:
                if f.name in ('timestamp_begin', 'timestamp_end') and isinstance(f.type, tsdl.Integer):
                    c.eq('stream %s packet.context.%s.map' % (dn, f.name), f.type.attrs.get('map'),
                         tsdl.Ident('clock.%s.value' % clk) if clk else None)
            extra = d.get('packet-context-field-type-extra-members')
            if extra:
                cmp_struct(c, 'stream %s packet.context' % dn, pc, {'members': extra}, skip=len(pc.fields) - sum(2 if list(m.values())[0]['field-type']['class'] == 'dynamic-array' else 1 for m in extra))
        eh = sb.types.get('event.header')
        if isinstance(eh, tsdl.Struct):
            for f in eh.fields:
                if f.name == 'timestamp' and isinstance(f.type, tsdl.Integer):
                    c.eq('stream %s event.header.timestamp.map' % dn, f.type.attrs.get('map'), tsdl.Ident('clock.%s.value' % clk) if clk else None)
        cc = d.get('event-record-common-context-field-type')
        if cc:
            cmp_struct(c, 'stream %s event.context' % dn, sb.types.get('event.context'), cc)
        evs = ev_by.get(sid if dst_id_on else None, [])
        enames = sorted(d['event-record-types'])
        c.eq('stream %s event names' % dn, sorted(str(e.attrs.get('name')) for e in evs), enames)
        for eid, en in enumerate(enames):
            e = d['event-record-types'][en]
            eb = [x for x in evs if x.attrs.get('name') == en]
            if len(eb) != 1:
                continue
            eb = eb[0]
            c.eq('event %s/%s.name' % (dn, en), eb.attrs.get('name'), tsdl.Str(en))
            c.eq('event %s/%s.id' % (dn, en), eb.attrs.get('id'), eid)
            c.eq('event %s/%s.stream_id' % (dn, en), eb.attrs.get('stream_id'), sid if dst_id_on else None)
            ll = e.get('log-level')
            key = 'S2-log-level-0-dropped' if ll == 0 else 'C15-attribute-mismatch'
            c.eq('event %s/%s.loglevel' % (dn, en), eb.attrs.get('loglevel'), ll, key)
            if e.get('specific-context-field-type'):
                cmp_struct(c, 'event %s/%s context' % (dn, en), eb.types.get('context'), e['specific-context-field-type'])
            if e.get('payload-field-type'):
                cmp_struct(c, 'event %s/%s fields' % (dn, en), eb.types.get('fields'), e['payload-field-type'])


def parse_metadata(ctx, text, replay):
    """Strict parse; a raw new-line in a literal is the keyed finding, anything else a violation."""
    if not tsdl.check_header(text):
        ctx.violation('metadata does not start with the CTF 1.8 magic comment', replay)
    try:
        return tsdl.parse(text), False
    except tsdl.TsdlError as exc:
        if 'new-line character inside a string literal' not in exc.msg:
            ctx.violation('metadata is not well-formed TSDL: %s' % exc, dict(replay, error=str(exc)))
            return None, False
        if 'nl' not in REPORTED:
            REPORTED.add('nl')
            ctx.finding('C15-newline-in-string-literal',
                        'a string value containing a new-line character is written raw into a TSDL string literal (%s): not a valid literal under the CTF 1.8 grammar' % exc,
                        dict(replay, error=str(exc)))
        try:
            return tsdl.parse(text, strict=False), True
        except tsdl.TsdlError as exc2:
            ctx.violation('metadata is not well-formed TSDL: %s' % exc2, dict(replay, error=str(exc2)))
            return None, True


REPORTED = set()


def report(ctx, c, replay, seen_keys):
    for key, msg in c.bad:
        if key == 'S2-log-level-0-dropped':
            if 's2' not in REPORTED:
                REPORTED.add('s2')
                ctx.finding(key, 'log level 0 is configured but the event block has no loglevel attribute (%s)' % msg, replay)
        elif (key, msg) not in seen_keys and len(seen_keys) < 6:
            seen_keys.add((key, msg))
            ctx.violation('metadata does not state a configured attribute: ' + msg, dict(replay, finding_key=key))


def api_config(clk=None, ert_kwargs=None, env=None, tt_uuid=None, payload=None):
    bc = bt.bc
    payload = payload or bc.StructureFieldType(1, {'x': bc.StructureFieldTypeMember(bc.UnsignedIntegerFieldType(8))})
    ert = bc.EventRecordType('ev', payload_field_type=payload, **(ert_kwargs or {}))
    dst = bc.DataStreamType('s', {ert}, default_clock_type=clk)
    tt = bc.TraceType(bc.ByteOrder.LITTLE_ENDIAN, {dst}, uuid=tt_uuid)
    return bc.Configuration(bc.Trace(tt, env))


def api_metadata(cfg):
    return bt.barectf.CodeGenerator(cfg).generate_metadata_stream().contents


def run(ctx):
    prepare(ctx)
    REPORTED.clear()
    rng = ctx.rng
    import barectf.template as btempl
    seen = set()
    total_attrs = 0
    nfiles = 0
    # ---- 1. random YAML configurations rich in boundary values
    ncfg = ctx.pick(40, 400)
    samples = []
    lit_cases = []     # (string, literal text) for the Coq reader
    rdocs = G.replay_docs(ctx) or []
    for i in range(ncfg + len(rdocs)):
        doc = rdocs[i] if i < len(rdocs) else G.gen_config(rng, n_dst=(1, 3), n_ert=(1, 4), n_clk=(1, 3), hard_strings=True)
        ytxt = G.yaml_text(doc)
        try:
            cfg = bt.barectf.configuration_from_file(io.StringIO(ytxt), True, [], False)
            text = api_metadata(cfg)
        except Exception as exc:   # noqa: BLE001
            ctx.corr_broken.append('C15 generator produced a configuration barectf rejects: %s' % str(exc)[:200])
            ctx.notes.append(ytxt[:1500])
            continue
        replay = {'yaml': ytxt}
        md, had_nl = parse_metadata(ctx, text, replay)
        if md is None:
            continue
        nfiles += 1
        c = Cmp()
        try:
            compare_yaml(doc, md, c)
        except tsdl.TsdlError as exc:
            ctx.violation('metadata structure: %s' % exc, replay)
        total_attrs += c.n
        report(ctx, c, replay, seen)
        # string literals as written
        strs = [v for v in (doc['trace'].get('environment') or {}).values() if isinstance(v, str)]
        strs += [ck['description'] for ck in (doc['trace']['type'].get('clock-types') or {}).values() if ck.get('description')]
        for s in strs:
            raw = btempl._filt_escape_dq(s)
            if '"%s"' % raw in text:
                lit_cases.append((s, raw))
        if len(samples) < 3:
            samples.append({'clock_blocks': [dict(b.attrs) for b in md.all('clock')][:2], 'env': dict(md.block('env').attrs)})
    # ---- 2. objects built directly: values the YAML schema does not reach
    bc = bt.bc
    api_cases = []
    for secs in (0, -1, -(2 ** 63), 2 ** 63 - 1, 1434072888):
        for cyc in (0, 2 ** 64 - 1):
            for absolute in (False, True):
                api_cases.append(dict(frequency=rng.choice([1, 2 ** 64 - 1, 1000000000]), precision=rng.choice([0, 2 ** 64 - 1]),
                                      offset=bc.ClockTypeOffset(secs, cyc), origin_is_unix_epoch=absolute,
                                      uuid=rng.choice([None, uuidp.UUID(int=rng.getrandbits(128))]),
                                      description=rng.choice([None, '', 'd "q" \\ é', 'tab\t', 'a\\', '\\"'])))
    for kw in api_cases:
        clk = bc.ClockType('c0', **kw)
        ll = rng.choice([None, 0, 1, 15, 2 ** 63])
        envd = {'e_int': rng.choice([0, -1, -(2 ** 63), 2 ** 64 - 1]), 'e_str': rng.choice(['', 'q"', '\\', 'é漢', 'x\\"y', 'cr\rx', 'ff\fx', 'ls\u2028x'])}
        tu = rng.choice([None, uuidp.UUID(int=rng.getrandbits(128))])
        # labels with every character Python's str.splitlines() treats as a line boundary (a template filter that splits
        # text into lines must not touch what is inside a string literal), quotes, backslashes, tabs
        tricky = rng.sample(['cr\rlf', 'ff\fvt\x0b', 'nel\x85', 'ls\u2028ps\u2029', 'fs\x1cgs\x1drs\x1e', 'tab\tx', 'two\nlines',
                             'sp  ace', 'q"\r"', '\\\r'], 3)
        mp = {
            'min "q"': bc.EnumerationFieldTypeMapping({bc.EnumerationFieldTypeMappingRange(-(2 ** 63), -(2 ** 63))}),
            'back\\slash': bc.EnumerationFieldTypeMapping({bc.EnumerationFieldTypeMappingRange(-5, 2 ** 63 - 1), bc.EnumerationFieldTypeMappingRange(0, 0)})}
        for ti, tl in enumerate(tricky):
            mp[tl] = bc.EnumerationFieldTypeMapping({bc.EnumerationFieldTypeMappingRange(100 + ti, 100 + ti)})
        enum = bc.SignedEnumerationFieldType(64, mappings=mp)
        payload = bc.StructureFieldType(1, {'x': bc.StructureFieldTypeMember(enum)})
        cfg = api_config(clk, {'log_level': ll} if ll is not None else {}, envd, tu, payload)
        text = api_metadata(cfg)
        replay = {'api': {'clock': {k: str(v) if k in ('uuid',) else (v if k != 'offset' else [v.seconds, v.cycles]) for k, v in kw.items()},
                          'log_level': ll, 'environment': envd, 'trace_uuid': str(tu)}}
        md, _ = parse_metadata(ctx, text, replay)
        if md is None:
            continue
        nfiles += 1
        c = Cmp()
        cb = md.block('clock').attrs
        c.eq('clock.name', cb.get('name'), tsdl.Ident('c0'))
        c.eq('clock.freq', cb.get('freq'), kw['frequency'])
        c.eq('clock.precision', cb.get('precision'), kw['precision'])
        c.eq('clock.offset_s', cb.get('offset_s'), kw['offset'].seconds)
        c.eq('clock.offset', cb.get('offset'), kw['offset'].cycles)
        c.eq('clock.absolute', cb.get('absolute'), tsdl.Ident('true' if kw['origin_is_unix_epoch'] else 'false'))
        c.eq('clock.uuid', cb.get('uuid'), tsdl.Str(str(kw['uuid'])) if kw['uuid'] else None)
        c.eq('clock.description', cb.get('description'), tsdl.Str(kw['description']) if kw['description'] else None)
        c.eq('trace.uuid', md.block('trace').attrs.get('uuid'), tsdl.Str(str(tu)) if tu else None)
        ev = md.block('event')
        c.eq('event.loglevel', ev.attrs.get('loglevel'), ll, 'S2-log-level-0-dropped' if ll == 0 else 'C15-attribute-mismatch')
        eb = md.block('env').attrs
        c.eq('env.e_int', eb.get('e_int'), envd['e_int'])
        c.eq('env.e_str', eb.get('e_str'), tsdl.Str(envd['e_str']))
        en = ev.types['fields'].fields[0].type
        c.eq('enum entries', sorted(en.entries) if isinstance(en, tsdl.Enum) else None,
             sorted([('min "q"', -(2 ** 63), -(2 ** 63)), ('back\\slash', -5, 2 ** 63 - 1), ('back\\slash', 0, 0)] +
                    [(tl, 100 + ti, 100 + ti) for ti, tl in enumerate(tricky)]))
        total_attrs += c.n
        report(ctx, c, replay, seen)
    # ---- 3. replay of the refutation witnesses
    #   S2: log level 0
    text = api_metadata(api_config(None, {'log_level': 0}))
    md = tsdl.parse(text)
    s2 = md.block('event').attrs.get('loglevel')
    if s2 is None and 's2' in REPORTED:
        pass
    elif s2 is None:
        ctx.finding('S2-log-level-0-dropped', 'log level 0 is configured but the event block has no loglevel attribute (metadata.j2: {% if ert.log_level %})',
                    {'api': 'EventRecordType("ev", log_level=0, ...)', 'event_block': dict(md.block('event').attrs)})
    elif s2 != 0:
        ctx.violation('log level 0 is stated as %r in the metadata' % (s2,), {'api': 'log_level=0'})
    text = api_metadata(api_config(None, {'log_level': 7}))
    if tsdl.parse(text).block('event').attrs.get('loglevel') != 7:
        ctx.violation('log level 7 is not stated in the metadata', {'api': 'log_level=7'})
    #   new-line in a description (what a YAML block scalar `description: |` gives)
    text = api_metadata(api_config(bc.ClockType('c0', description='two\nlines')))
    nl_strict = None
    try:
        tsdl.parse(text)
        nl_strict = 'accepted'
    except tsdl.TsdlError as exc:
        nl_strict = str(exc)
        if 'new-line' in exc.msg and 'nl' not in REPORTED:
            ctx.finding('C15-newline-in-string-literal',
                        'a string value containing a new-line character is written raw into a TSDL string literal: not a valid literal under the CTF 1.8 grammar',
                        {'api': 'ClockType("c0", description="two\\nlines")', 'error': str(exc)})
    if nl_strict == 'accepted':
        got_desc = tsdl.parse(text).block('clock').attrs.get('description')
        if got_desc != 'two\nlines':
            ctx.violation('a clock type description with a new-line is stated as %r' % (got_desc,), {'api': 'ClockType("c0", description="two\\nlines")'})
    # ---- 4. Coq: translated escape_dq vs the real one, literals read back, guard model
    strings = ['', '"', '\\', '\\"', '"\\', 'a"b', 'a\\b', '\\\\', '""', 'é', '漢字', '\t', '\r', 'x' * 50, '\x00', '\x7f', "'", '?', '\\n', 'a\nb']
    alphabet = ['"', '\\', 'a', 'n', ' ', 'é', '\n', '\t', '0', 'x']
    for _ in range(ctx.pick(300, 3000)):
        strings.append(''.join(rng.choice(alphabet) for _ in range(rng.randint(0, 8))))
    esc_cases = [(s, btempl._filt_escape_dq(s)) for s in strings]
    emit_cases = []
    for val, coqv in [(None, 'PNone'), ('', 'PStr []'), ('d', 'PStr [100]')]:
        md = tsdl.parse(api_metadata(api_config(bc.ClockType('c0', description=val))))
        emit_cases.append(('clock', 'description', coqv, 'description' in md.block('clock').attrs))
    for val, coqv in [(None, 'PNone'), (uuidp.UUID(int=5), 'PObj')]:
        md = tsdl.parse(api_metadata(api_config(bc.ClockType('c0', uuid=val))))
        emit_cases.append(('clock', 'uuid', coqv, 'uuid' in md.block('clock').attrs))
        md = tsdl.parse(api_metadata(api_config(None, tt_uuid=val)))
        emit_cases.append(('trace', 'uuid', coqv, 'uuid' in md.block('trace').attrs))
    for val, coqv in [(None, 'PNone'), (0, 'PInt 0'), (3, 'PInt 3')]:
        md = tsdl.parse(api_metadata(api_config(None, {'log_level': val} if val is not None else {})))
        emit_cases.append(('event', 'loglevel', coqv, 'loglevel' in md.block('event').attrs))
    body = ['From Coq Require Import List NArith ZArith Bool.', 'Import ListNotations.',
            'From BT.Front Require Import Prefix CTypes Escape MetaAttrs Ids.', 'From BT.Gen Require Import PyFuns MetaGuards.', 'Open Scope N_scope.',
            'Definition esc_case_ok (c : str * str) : bool := str_eqb (escape_dq (fst c)) (snd c).',
            '(* every literal written by the real generator is read back as the configured string *)',
            'Definition lit_ok (c : str * str) : bool := literal_case_ok c.',
            'Definition c_esc : list (str * str) := [%s].' % ';\n'.join('(%s, %s)' % (coq_str(a), coq_str(b)) for a, b in esc_cases),
            'Definition c_lit : list (str * str) := [%s].' % ';\n'.join('(%s, %s)' % (coq_str(a), coq_str(b)) for a, b in lit_cases + esc_cases),
            'Definition c_emit : list (str * str * pyval * bool) := [%s].' % ';\n'.join(
                '(%s, %s, %s, %s)' % (coq_str(b), coq_str(a), v.replace('PInt 0', 'PInt 0%Z').replace('PInt 3', 'PInt 3%Z'), 'true' if e else 'false') for b, a, v, e in emit_cases),
            'Eval vm_compute in (failing esc_case_ok 0%nat c_esc, failing lit_ok 0%nat c_lit, failing (emit_case_ok meta_rows) 0%nat c_emit).']
    rc, out = run_cases_v('c15_cases', '\n'.join(body) + '\n', ctx.scratch)
    m = re.search(r'=\s*\((.*)\)\s*:\s*list nat \* list nat', out, re.S)
    fails = None
    if rc != 0 or not m:
        ctx.corr_broken.append('C15 model evaluation failed: %s' % out[-400:])
    else:
        groups = re.findall(r'\[(.*?)\]', m.group(1).replace('\n', ' '))
        fails = [[int(t) for t in g.split(';') if t.strip()] for g in groups]
        if fails[0]:
            ctx.corr_broken.append('Gen/PyFuns.escape_dq disagrees with the real _filt_escape_dq on %d strings, first %r' % (len(fails[0]), esc_cases[fails[0][0]][0]))
        if fails[1]:
            allc = lit_cases + esc_cases
            ctx.corr_broken.append('Coq read_literal does not read back %d literals produced by the real generator, first %r' % (len(fails[1]), allc[fails[1][0]]))
        if fails[2]:
            ctx.corr_broken.append('guard model (Gen/MetaGuards + MetaAttrs.kind_table) disagrees with the real generator on %r' % (emit_cases[fails[2][0]],))
    ctx.cov.update({
        'evaluations': total_attrs + len(esc_cases) * 2 + len(lit_cases) + len(emit_cases),
        'distinct_nontrivial': total_attrs,
        'rule': 'attribute comparisons (one per attribute of every trace/env/clock/stream/event block and of every integer/enumeration/real/array member) over %d parsed metadata files; plus escape / literal / guard cases evaluated on the Coq model' % nfiles,
        'metadata_files_parsed': nfiles, 'attributes_compared': total_attrs,
        'escape_cases_vs_real_function': len(esc_cases), 'literals_read_back_by_coq_reader': len(lit_cases) + len(esc_cases),
        'guard_emission_cases': len(emit_cases), 'model_case_failures': fails,
        'newline_witness_strict_parse': nl_strict, 'loglevel0_witness': repr(s2),
        'input_distribution': 'random YAML documents with boundary values (0, 2^63-1, 2^64-1, negative environment integers and enumeration ranges, strings with quotes / backslashes / tabs / new-lines / non-ASCII, empty strings) + barectf.config objects built directly (negative clock offsets, 64-bit extremes, log level 0 and 2^63)',
        'readings': 'an empty description string is read as "no description" (MetaAttrs.KStrFree); environment entry barectf_gen_date is ignored',
        'samples': samples,
    })
