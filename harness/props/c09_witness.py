"""Replay of the `_refuted` witnesses of Props/C09.v (Front/JsonWitness.v) on the real code.

For every witness: (1) the Python object replayed here is checked, inside Coq, to be the witness
term of the theorem (json_eqb, vm_compute); (2) the REAL schema stage
(`_SchemaValidator` of /repo) must accept it, as the model says; (3) the whole real front end is
run on a configuration containing it.  A witness that the real schema stage accepts and that the
front end does not turn into a configuration error is reported through ctx.finding."""
import os
import re

import bt
import yaml
from common import run_cases_v

import barectf.config_parse_common as cpc

TAG = '--- !<tag:barectf.org,2020/3/config>\n'
UINT8 = {'class': 'uint', 'size': 8}
K_FT = 'config/3/field-type#/definitions/ft'
K_CFG = 'config/3/config#'


def ert1():
    return {'payload-field-type': {'class': 'struct', 'members': [{'a': {'field-type': dict(UINT8)}}]}}


def cfg_of(trace_extra, dst_name, dst_extra):
    dst = dict(dst_extra)
    dst['event-record-types'] = {'e': ert1()}
    trace = dict(trace_extra)
    trace['type'] = {'native-byte-order': 'le', 'data-stream-types': {dst_name: dst}}
    return {'trace': trace}


def with_member_ft(ft):
    """a configuration whose only payload member has the field type node `ft`"""
    c = cfg_of({}, 'd', {})
    c['trace']['type']['data-stream-types']['d']['event-record-types']['e']['payload-field-type']['members'] = [
        {'a': {'field-type': ft}}]
    return c


WITNESSES = [
    dict(coq='w_name_nl', key=K_CFG, theorem='C09_name_identifier_refuted',
         finding='NEW-identifier-trailing-newline-accepted',
         inst=cfg_of({}, 'd\n', {}),
         what='a data stream type named "d\\n" (identifier followed by a newline) is accepted: python `$` matches before a final newline'),
]

# witnesses of defects REPAIRED in /repo: the regenerated schemas (Examples of Props/C09.v), the real
# schema stage and the real front end must now all refuse them; anything else is a regression
REPAIRED = [
    dict(coq='w_enum_null', key=K_FT, theorem='C09_enum_null_mappings_rejected',
         finding='NEW-enum-mappings-null-accepted',
         inst={'class': 'uenum', 'size': 8, 'mappings': None},
         what='enumeration field type with `mappings: null` passes the schemas although at least one mapping is documented as required'),
    dict(coq='w_S18', key=K_FT, theorem='C09_float_size_rejected',
         finding='S19-integral-float-accepted-as-integer',
         inst={'class': 'uint', 'size': 8.0},
         what='a YAML float with an integral value (size: 8.0) passes for an integer (Draft-7 "integer" of jsonschema 3.2.0)'),
    dict(coq='w_S3', key=K_CFG, theorem='(enforced by _create_dst, not by the schemas)', schema=0,
         finding='S3-total-size-narrower-than-content-size',
         inst=cfg_of({}, 'd', {'$features': {'packet': {'total-size-field-type': {'class': 'uint', 'size': 8},
                                                         'content-size-field-type': {'class': 'uint', 'size': 16}}}}),
         what='8-bit total size field type with a 16-bit content size field type is accepted (dst-obj.adoc: total size field type must be at least as large)'),
    dict(coq='w_S14', key=K_FT, theorem='C09_static_array_without_length_rejected',
         finding='S14-static-array-length-not-required',
         inst={'class': 'static-array', 'element-field-type': dict(UINT8)},
         what='static array field type without `length` (documented as required) passes the final schema config/3/config'),
    dict(coq='w_S4', key=K_FT, theorem='C09_dynamic_array_unknown_property_rejected',
         finding='S4-dynamic-array-unvalidated',
         inst={'class': 'dynamic-array', 'zz': 1},
         what='dynamic array field type node is not validated by the schemas (duplicate key `dynamic-array-ft-class-prop` in schemas/config/3/field-type.yaml): unknown property / missing element-field-type pass'),
    dict(coq='w_member', key=K_FT, theorem='C09_member_name_not_identifier_rejected',
         finding='NEW-struct-member-name-pattern-not-enforced',
         inst={'class': 'struct', 'members': [{'a-b': {'field-type': dict(UINT8)}}]}, embed='payload',
         what='structure member whose name is not an identifier (`a-b`) passes (patternProperties without additionalProperties: false in struct-ft-members; the member value is then not validated either)'),
    dict(coq='w_trace_prop', key=K_CFG, theorem='C09_trace_unknown_property_rejected',
         finding='NEW-trace-object-unknown-property-accepted',
         inst=cfg_of({'zz': 1}, 'd', {}),
         what='unknown property `zz` of the trace object is accepted (definitions/trace of config/3/config.yaml lacks additionalProperties: false)'),
]


def ordered(x):
    """same key order as the Coq witness terms (extra keys first for cfg_of: see JsonWitness.cfg_of)"""
    return x


def load(ctx, name, cfg):
    path = os.path.join(ctx.scratch, 'wit_%s.yaml' % name)
    with open(path, 'w') as f:
        f.write(TAG + yaml.dump(cfg, default_flow_style=False, sort_keys=False))
    try:
        with open(path) as f:
            c = bt.barectf.configuration_from_file(f)
    except cpc._ConfigurationParseError as e:
        return 'config_error', str(e)[-300:], path
    except Exception as e:
        return 'crash', '%s: %s' % (type(e).__name__, e), path
    try:
        d = os.path.join(ctx.scratch, 'wit_%s_gen' % name)
        files = bt.generate(c, d)
    except Exception as e:
        return 'accepted', 'generation raises %s: %s' % (type(e).__name__, str(e)[:200]), path
    bad = []
    for fn in sorted(files):
        if fn.endswith('.c'):
            rc, out = bt.cc(['-ansi', '-pedantic-errors', '-fsyntax-only', '-I', d, os.path.join(d, fn)], cwd=d)
            if rc != 0:
                errs = [l for l in out.splitlines() if 'error' in l]
                bad.append(errs[0][-200:] if errs else 'rc=%d' % rc)
    return 'accepted', ('generated C does not compile: ' + bad[0]) if bad else 'generates and compiles', path


def run(ctx):
    from props.c09_corr import PyValidators, coq_json
    pv = PyValidators()
    # (1) the Python objects are the Coq witnesses
    body = ['From Coq Require Import List String ZArith.', 'Import ListNotations.',
            'From BT.Front Require Import Json JsonSchema JsonWitness.', 'Open Scope string_scope.',
            'Definition same : list bool := [']
    body.append(';\n'.join('json_eqb %s %s' % (coq_json(w['inst']), w['coq']) for w in WITNESSES + REPAIRED))
    body.append('].')
    body.append('Eval vm_compute in same.')
    rc, out = run_cases_v('c09wit', '\n'.join(body) + '\n', ctx.scratch, timeout=300)
    m = re.search(r'=\s*\[(.*?)\]\s*:\s*list bool', out, re.S)
    same = [t.strip() == 'true' for t in m.group(1).split(';')] if rc == 0 and m else None
    if same is None or len(same) != len(WITNESSES) + len(REPAIRED) or not all(same):
        ctx.corr_broken.append('witness terms of Front/JsonWitness.v differ from the documents replayed by the harness: %s %s' % (same, out[-300:]))
    rows = []
    for w in WITNESSES + REPAIRED:
        verdict = pv.verdict(3, w['key'], w['inst'])
        if w['key'] == K_CFG:
            cfg = w['inst']
        elif w.get('embed') == 'payload':
            cfg = cfg_of({}, 'd', {})
            cfg['trace']['type']['data-stream-types']['d']['event-record-types']['e']['payload-field-type'] = w['inst']
        else:
            cfg = with_member_ft(w['inst'])
        outcome, detail, path = load(ctx, w['coq'], cfg)
        rows.append({'witness': w['coq'], 'theorem': w['theorem'], 'real_schema_stage': {0: 'valid', 1: 'invalid', 3: 'exception'}[verdict],
                     'front_end': outcome, 'detail': detail})
        if w in REPAIRED:
            if verdict != w.get('schema', 1) or outcome != 'config_error':
                ctx.violation('regression of a repaired defect (%s): %s; real schema stage verdict %s, front end %s (%s)' % (
                    w['finding'], w['what'], verdict, outcome, detail),
                    {'witness': w['coq'], 'yaml': open(path).read(), 'front_end_outcome': outcome, 'detail': detail})
            continue
        if verdict != 0:
            ctx.corr_broken.append('witness %s: the model accepts it, the real schema stage of /repo does not (verdict %d)' % (w['coq'], verdict))
            continue
        if outcome == 'config_error':
            ctx.notes.append('witness %s passes the schema stage but a later Python check rejects it with a configuration error: %s' % (w['coq'], detail))
            continue
        text = open(path).read()
        ctx.finding(w['finding'],
                    '%s; real front end: %s (%s)' % (w['what'], outcome if outcome == 'accepted' else 'no configuration error but ' + detail, detail),
                    {'theorem': w['theorem'], 'witness': w['coq'], 'yaml': text, 'front_end_outcome': outcome, 'detail': detail})
    ctx.cov['witness_replay'] = rows
