"""C19: generated names carry the configured prefixes; distinct-prefix tracers coexist (partial).

Proof: Props/C19.v on Gen/Decls.v (declarations scanned from the real templates) and
Gen/PyFuns.v (prefix functions translated from the real Python).
Tie / validation on the real code:
  * translated prefix functions vs the real ones on enumerated strings (cases.v);
  * `nm` of the object compiled from the generated source, for several prefixes and random
    configurations, vs the model's predicted symbol set (cases.v);
  * two tracers with different prefixes (incl. a_ / a_b_) compiled, linked into ONE program and
    run interleaved: each emits the same packets as when it runs alone;
  * the witness of C19_nested_prefix_refuted replayed (prefix a_ + stream b_s vs prefix a_b_ +
    stream s): a duplicate symbol at link time is a finding;
  * shorthand macros and tracepoint() expanded by the real preprocessor for a default stream
    with a non-default name; CLI --prefix.
"""
import os
import re
import subprocess

import bt
from common import REPO, prepare, run_cases_v, sh
from props import c14cfg as G

LEVEL = 'proof'


def coq_str(s):
    return '[' + ';'.join(str(ord(c)) for c in s) + ']'


def coq_list(xs):
    return '[' + ';'.join(xs) + ']'


def nm_symbols(obj):
    rc, out = sh(['nm', '--defined-only', obj])
    ext, data = [], []
    for line in out.splitlines():
        parts = line.split()
        if len(parts) == 3:
            _, kind, name = parts
            if kind.isupper():
                ext.append((kind, name))
            if kind in 'dDbBcC':
                data.append((kind, name))
    return ext, data


def simple_doc(prefix, dst='default', ert='ev', default=True, header_defs=True, clk='clk'):
    d = {'options': {'code-generation': {'prefix': prefix if isinstance(prefix, str) else {'identifier': prefix[0], 'file-name': prefix[1]},
                                         'header': {'identifier-prefix-definition': header_defs,
                                                    'default-data-stream-type-name-definition': header_defs}}},
         'trace': {'type': {'native-byte-order': 'le',
                            'clock-types': {clk: {'$c-type': 'uint64_t'}},
                            'data-stream-types': {dst: {'$is-default': default, '$default-clock-type-name': clk,
                                                        'event-record-types': {ert: {'payload-field-type': {'class': 'struct', 'members': [
                                                            {'x': {'field-type': {'class': 'uint', 'size': 32}}},
                                                            {'s': {'field-type': {'class': 'str'}}}]}}}}}}}}
    return d


DRIVER = r'''
#include <string.h>
#include "%(fp)s.h"
static uint8_t buf[128];
static uint8_t out[8192];
static unsigned out_len;
static struct %(p)s%(dst)s_ctx sctx;
static uint64_t clock_val;
static uint64_t get_clock(void *d) { (void) d; clock_val += %(step)d; return clock_val; }
static int is_full(void *d) { (void) d; return 0; }
static void open_packet(void *d) { (void) d; %(p)s%(dst)s_open_packet(&sctx); }
static void close_packet(void *d) { (void) d; %(p)s%(dst)s_close_packet(&sctx);
	if (out_len + sizeof(buf) <= sizeof(out)) { memcpy(out + out_len, buf, sizeof(buf)); out_len += sizeof(buf); } }
void init_%(tag)s(void) { struct %(p)splatform_callbacks cbs; cbs.%(clk)s_clock_get_value = get_clock; cbs.is_backend_full = is_full;
	cbs.open_packet = open_packet; cbs.close_packet = close_packet; %(p)sinit(&sctx, buf, sizeof(buf), cbs, 0); open_packet(0); }
void step_%(tag)s(unsigned i) { %(p)s%(dst)s_trace_%(ert)s(&sctx, i * %(step)d, "%(tag)s-hello"); }
unsigned fini_%(tag)s(uint8_t **o) { if (%(p)spacket_is_open(&sctx) && !%(p)spacket_is_empty(&sctx)) close_packet(0); *o = out; return out_len; }
'''

MAIN = r'''
#include <stdio.h>
#include <stdint.h>
%(decls)s
static void dump(const char *tag, uint8_t *o, unsigned n) { unsigned i; printf("%%s %%u ", tag, n); for (i = 0; i < n; i++) printf("%%02x", o[i]); printf("\n"); }
int main(void) { unsigned i; uint8_t *o; unsigned n;
%(inits)s
	for (i = 0; i < 40; i++) {
%(steps)s
	}
%(finis)s
	return 0; }
'''


def build_tracer(ctx, base, tag, prefix, dst, ert, step):
    d = os.path.join(base, tag)
    doc = simple_doc(prefix, dst, ert)
    p = os.path.join(base, tag + '.yaml')
    with open(p, 'w') as f:
        f.write(G.yaml_text(doc))
    rc, out, files = G.generate_subprocess(p, d)
    if rc != 0:
        return None, 'generation failed: ' + out[-300:]
    iden, fp = (prefix + '_', prefix) if isinstance(prefix, str) else prefix
    with open(os.path.join(d, 'drv_%s.c' % tag), 'w') as f:
        f.write(DRIVER % dict(fp=fp, p=iden, dst=dst, ert=ert, tag=tag, step=step, clk='clk'))
    objs = []
    for src in (fp + '.c', 'drv_%s.c' % tag):
        obj = os.path.join(d, src[:-2] + '.o')
        rc, out = bt.cc(['-c', '-O1', '-Wall', '-Wextra', '-Wno-unused-function', '-Wno-unused-parameter', '-I', d, os.path.join(d, src), '-o', obj], cwd=d)
        if rc != 0:
            return None, 'compilation failed: ' + out[-400:]
        objs.append(obj)
    return dict(tag=tag, dir=d, objs=objs, iden=iden, fp=fp, yaml=G.yaml_text(doc)), None


def link_and_run(base, name, tracers):
    decls = '\n'.join('void init_%(t)s(void); void step_%(t)s(unsigned); unsigned fini_%(t)s(uint8_t **);' % {'t': t['tag']} for t in tracers)
    inits = '\n'.join('\tinit_%s();' % t['tag'] for t in tracers)
    steps = '\n'.join('\t\tstep_%s(i);' % t['tag'] for t in tracers)
    finis = '\n'.join('\tn = fini_%(t)s(&o); dump("%(t)s", o, n);' % {'t': t['tag']} for t in tracers)
    mc = os.path.join(base, name + '_main.c')
    with open(mc, 'w') as f:
        f.write(MAIN % dict(decls=decls, inits=inits, steps=steps, finis=finis))
    exe = os.path.join(base, name)
    rc, out = bt.cc(['-O1', mc] + sum((t['objs'] for t in tracers), []) + ['-o', exe], cwd=base)
    if rc != 0:
        return None, out
    p = subprocess.run([exe], capture_output=True, text=True, timeout=60)
    if p.returncode != 0:
        return None, 'run failed rc=%s %s' % (p.returncode, p.stderr[-300:])
    res = {}
    for line in p.stdout.splitlines():
        tag, n, hx = (line.split(' ') + [''])[:3]
        res[tag] = (int(n), hx)
    return res, None


def run(ctx):
    prepare(ctx)
    rng = ctx.rng
    coq_cases = {'v2': [], 'cfg': [], 'sym': [], 'macro': [], 'cli': []}
    meta = {'v2': [], 'cfg': [], 'sym': [], 'macro': [], 'cli': []}
    # ---- 1. translated prefix functions vs the real ones
    import barectf.config_parse_common as bcommon
    alphabet = ['a', 'B', '_', '9', 'é', ' ', '-']
    strs = ['', '_', '__', 'a', 'a_', 'a__', '_a_', 'barectf_', 'barectf', 'a_b_', '___x___', 'x_y', 'é_', '_é__']
    for _ in range(ctx.pick(200, 2000)):
        strs.append(''.join(rng.choice(alphabet) for _ in range(rng.randint(0, 8))))
    for s in strs:
        r = bcommon._v3_prefixes_from_v2_prefix(s)
        # documented rule (cli usage.adoc, barectf 2 `prefix` option), independent of the translated function:
        # identifier prefix = PREFIX, file name prefix = PREFIX without TRAILING underscores
        doc_rule = (s, s.rstrip('_'))
        if (r.identifier, r.file_name) != doc_rule:
            ctx.violation('prefix %r: the barectf 2 / --prefix rule gives (identifier %r, file name %r), documented: %r' % (
                s, r.identifier, r.file_name, doc_rule), {'prefix': s, 'real': [r.identifier, r.file_name], 'documented': list(doc_rule)})
        coq_cases['v2'].append('(%s, (%s, %s))' % (coq_str(s), coq_str(r.identifier), coq_str(r.file_name)))
        meta['v2'].append(s)
    for s in ['barectf', 'a', 'a_', 'my_prefix', 'X9', '_x', 'a_b', 'trace_', '__']:
        doc = simple_doc(s)
        p = os.path.join(ctx.scratch, 'pfx.yaml')
        with open(p, 'w') as f:
            f.write(G.yaml_text(doc))
        try:
            with open(p) as f:
                cfg = bt.barectf.configuration_from_file(f, True, [], False)
        except Exception as exc:   # noqa: BLE001  (an invalid prefix is not a case)
            ctx.notes.append('prefix %r rejected by the front end: %s' % (s, str(exc)[:100]))
            continue
        o = cfg.options.code_generation_options
        coq_cases['cfg'].append('(%s, (%s, %s))' % (coq_str(s), coq_str(o.identifier_prefix), coq_str(o.file_name_prefix)))
        meta['cfg'].append(s)
    # ---- 2. nm of compiled objects vs the model's symbol set
    nsym = ctx.pick(10, 40)
    prefixes = ['barectf', 'a', 'a_b', ('zz__', 'zzfile'), ('P', 'p-file'), 'x9', ('_u_', 'u')]
    data_syms = 0
    for i in range(nsym):
        pf = prefixes[i % len(prefixes)]
        doc = G.gen_config(rng, n_dst=(1, 3), n_ert=(1, 4), n_clk=(0, 2), prefix=pf, natural_reals=True, ansi_ctypes=True, byte_order='native-le')
        from props.c13 import ambiguous
        if ambiguous(doc):
            continue
        d = os.path.join(ctx.scratch, 'sym%d' % i)
        p = d + '.yaml'
        with open(p, 'w', encoding='utf-8') as f:
            f.write(G.yaml_text(doc))
        rc, out, files = G.generate_subprocess(p, d)
        if rc != 0:
            ctx.corr_broken.append('C19 generator produced a configuration barectf rejects: %s' % out[-200:])
            continue
        iden, fp = (pf + '_', pf) if isinstance(pf, str) else pf
        want_files = {fp + '.h', fp + '-bitfield.h', fp + '.c', 'metadata'}
        if set(files) != want_files:
            ctx.violation('generated file names are not PREFIX.h / PREFIX-bitfield.h / PREFIX.c / metadata: %s (file name prefix %r)' % (sorted(files), fp),
                          {'yaml': G.yaml_text(doc), 'files': sorted(files)})
            continue
        obj = os.path.join(d, 'o.o')
        rc, out = bt.cc(['-c', '-O0', '-I', d, os.path.join(d, fp + '.c'), '-o', obj], cwd=d)
        if rc != 0:
            ctx.notes.append('C19: generated source does not compile (C14 matter): %s' % out[-200:])
            continue
        ext, data = nm_symbols(obj)
        data_syms += len(data)
        bad = [n for k, n in ext if not n.startswith(iden)]
        if bad:
            ctx.violation('external symbol(s) without the identifier prefix %r: %s' % (iden, bad[:5]),
                          {'yaml': G.yaml_text(doc), 'symbols': bad})
        cfgl = coq_list('(%s, %s)' % (coq_str(dn), coq_list(coq_str(e) for e in dv['event-record-types']))
                        for dn, dv in doc['trace']['type']['data-stream-types'].items())
        coq_cases['sym'].append('(%s, %s, %s)' % (coq_str(iden), cfgl, coq_list(coq_str(n) for k, n in ext)))
        meta['sym'].append({'prefix': pf, 'yaml': G.yaml_text(doc), 'nm': sorted(n for k, n in ext)})
    # ---- 3. two tracers in one program
    pairs = [(('a', 'default', 'ev'), ('b', 'default', 'ev')),
             (('a', 'default', 'ev'), ('a_b', 'default', 'ev')),          # a_ is a proper prefix of a_b_
             (('barectf', 's', 'e'), (('barectf2_', 'barectf2'), 's', 'e')),
             ((('T', 'same'), 's1', 'e'), (('t', 'other'), 's1', 'e'))]
    linked = 0
    for pi, (ta, tb) in enumerate(pairs):
        base = os.path.join(ctx.scratch, 'pair%d' % pi)
        os.makedirs(base, exist_ok=True)
        A, ea = build_tracer(ctx, base, 'A', ta[0], ta[1], ta[2], 3)
        B, eb = build_tracer(ctx, base, 'B', tb[0], tb[1], tb[2], 7)
        if A is None or B is None:
            ctx.corr_broken.append('C19 side-by-side: %s' % (ea or eb))
            continue
        both, err = link_and_run(base, 'both', [A, B])
        if both is None:
            ctx.violation('two tracers with different prefixes (%r, %r) do not link / run in one program: %s' % (ta[0], tb[0], err[-300:]),
                          {'yaml_a': A['yaml'], 'yaml_b': B['yaml'], 'output': err[-1500:]})
            continue
        alone_a, e1 = link_and_run(base, 'onlyA', [A])
        alone_b, e2 = link_and_run(base, 'onlyB', [B])
        if alone_a is None or alone_b is None:
            ctx.corr_broken.append('C19 side-by-side: single tracer program failed: %s' % (e1 or e2)[-200:])
            continue
        linked += 1
        if both.get('A') != alone_a.get('A') or both.get('B') != alone_b.get('B') or both['A'][0] == 0 or both['B'][0] == 0:
            ctx.violation('two tracers linked in one program do not produce the packets they produce alone (prefixes %r, %r)' % (ta[0], tb[0]),
                          {'yaml_a': A['yaml'], 'yaml_b': B['yaml'], 'together': both, 'alone_a': alone_a, 'alone_b': alone_b})
    # ---- 4. the refutation witness: prefix a_ + stream b_s  vs  prefix a_b_ + stream s
    base = os.path.join(ctx.scratch, 'nested')
    os.makedirs(base, exist_ok=True)
    A, ea = build_tracer(ctx, base, 'A', 'a', 'b_s', 'ev', 3)
    B, eb = build_tracer(ctx, base, 'B', 'a_b', 's', 'ev', 7)
    nested = None
    if A is None or B is None:
        ctx.corr_broken.append('C19 nested prefix witness: %s' % (ea or eb))
    else:
        both, err = link_and_run(base, 'both', [A, B])
        if both is None and 'multiple definition' in err:
            dup = sorted(set(re.findall(r"multiple definition of `(\w+)'", err)))
            nested = dup
            ctx.finding('C19-nested-prefix-symbol-collision',
                        'identifier prefixes a_ (stream b_s) and a_b_ (stream s) are different but both tracers define %s: they cannot be linked into one program' % dup,
                        {'yaml_a': A['yaml'], 'yaml_b': B['yaml'], 'duplicate_symbols': dup, 'linker_output': err[-1200:]})
        elif both is None:
            ctx.corr_broken.append('C19 nested prefix witness: link failed for another reason: %s' % err[-200:])
        else:
            ctx.corr_broken.append('C19_nested_prefix_refuted: the model predicts a symbol collision that the real code does not have')
    # ---- 5. shorthand macros and tracepoint() through the real preprocessor
    nmac = 0
    for pf, dst, ert in [('barectf', 'my_s', 'ev'), ('p', 'other_stream', 'prov_tp'), (('Q_', 'q'), 'd', 'a_b'), ('a_b', 'default', 'x_y_z')]:
        doc = simple_doc(pf, dst, ert)
        # a second, non default stream that also has the event record type: the macro must not pick it
        doc['trace']['type']['data-stream-types']['zz_other'] = {
            '$default-clock-type-name': 'clk',
            'event-record-types': {ert: {'payload-field-type': {'class': 'struct', 'members': [{'x': {'field-type': {'class': 'uint', 'size': 8}}}]}}}}
        d = os.path.join(ctx.scratch, 'mac%d' % nmac)
        p = d + '.yaml'
        with open(p, 'w') as f:
            f.write(G.yaml_text(doc))
        rc, out, files = G.generate_subprocess(p, d)
        if rc != 0:
            ctx.corr_broken.append('C19 macro test generation failed: %s' % out[-200:])
            continue
        iden, fp = (pf + '_', pf) if isinstance(pf, str) else pf
        prov, _, tp = ert.partition('_')
        tu = os.path.join(d, 'tu.c')
        with open(tu, 'w') as f:
            f.write('#include "%s.h"\n#define BARECTF_TRACEPOINT_CTX the_ctx\n#include "barectf-tracepoint.h"\n'
                    'EXPAND_SHORT %strace_%s END\n' % (fp, iden, ert) +
                    ('EXPAND_TP tracepoint(%s, %s, 1, "s") END\n' % (prov, tp) if tp else ''))
        rc, out = sh(['gcc', '-E', '-P', '-I', d, '-I', os.path.join(REPO, 'extra'), tu])
        m1 = re.search(r'EXPAND_SHORT (\w+) END', out)
        if rc != 0 or not m1:
            ctx.corr_broken.append('C19 macro test: preprocessing failed: %s' % out[-300:])
            continue
        coq_cases['macro'].append('(%s, %s, %s, %s)' % (coq_str(iden), coq_str(dst), coq_str(ert), coq_str(m1.group(1))))
        meta['macro'].append({'prefix': pf, 'default_stream': dst, 'ert': ert, 'expansion': m1.group(1), 'yaml': G.yaml_text(doc)})
        if tp:
            m2 = re.search(r'EXPAND_TP (\w+)\s*\(the_ctx, 1, "s"\) END', out)
            if not m2:
                ctx.violation('tracepoint(%s, %s, ...) does not expand to a call with the context first: %r' % (prov, tp, out[-200:]),
                              {'yaml': G.yaml_text(doc), 'preprocessed_tail': out[-600:]})
            else:
                coq_cases['macro'].append('(%s, %s, %s, %s)' % (coq_str(iden), coq_str(dst), coq_str(ert), coq_str(m2.group(1))))
                meta['macro'].append({'prefix': pf, 'default_stream': dst, 'ert': ert, 'expansion': m2.group(1), 'via': 'tracepoint()', 'yaml': G.yaml_text(doc)})
        nmac += 1
    # ---- 6. CLI --prefix
    # (configured prefix: a string unrelated to --prefix, and the object form whose identifier prefix EQUALS --prefix
    # while its file name prefix is something else: the override still decides both)
    for pv, cfgp in [(pv, cp) for pv in ['xyz_', 'xyz', 'q__', 'A_b_', '_trc_', '__u'] for cp in ('ignored', (pv, 'tracerfile'))]:
        doc = simple_doc(cfgp, 's', 'e')
        d = os.path.join(ctx.scratch, 'cli_%s_%s' % (pv, 'str' if isinstance(cfgp, str) else 'obj'))
        p = d + '.yaml'
        with open(p, 'w') as f:
            f.write(G.yaml_text(doc))
        rc, out, files = G.generate_cli(p, d, extra=['--prefix=' + pv])
        if rc != 0:
            ctx.corr_broken.append('C19 CLI --prefix run failed: %s' % out[-200:])
            continue
        cfile = [n for n in files if n.endswith('.c')]
        syms = []
        fpv = pv.rstrip('_')
        want_files = sorted([fpv + '.c', fpv + '.h', fpv + '-bitfield.h', 'metadata'])
        if sorted(files) != want_files:
            ctx.violation('with --prefix=%s the generated files are %s, documented (PREFIX without trailing underscores): %s' % (pv, sorted(files), want_files),
                          {'yaml': G.yaml_text(doc), 'cli': 'barectf generate --prefix=' + pv, 'files': sorted(files)})
        # the shorthand macro of the default data stream type must survive the --prefix override
        hfile = [n for n in files if n.endswith('.h') and 'bitfield' not in n]
        if len(hfile) == 1:
            htxt = open(os.path.join(d, hfile[0])).read()
            want = '#define %strace_e %ss_trace_e' % (pv, pv)
            if want not in htxt:
                ctx.violation('with --prefix=%s the generated header lacks the shorthand macro of the default data stream type (%r)' % (pv, want),
                              {'yaml': G.yaml_text(doc), 'cli': 'barectf generate --prefix=' + pv, 'header_defines': [l for l in htxt.splitlines() if l.startswith('#define')][:20]})
            if '#define _BARECTF_DEFAULT_DATA_STREAM_TYPE_NAME s' not in htxt:
                ctx.violation('with --prefix=%s the generated header lacks the default data stream type name definition' % pv,
                              {'yaml': G.yaml_text(doc), 'cli': 'barectf generate --prefix=' + pv})
        if len(cfile) == 1:
            obj = os.path.join(d, 'o.o')
            rc, out = bt.cc(['-c', '-I', d, os.path.join(d, cfile[0]), '-o', obj], cwd=d)
            if rc == 0:
                syms = [n for k, n in nm_symbols(obj)[0]]
        coq_cases['cli'].append('(%s, %s, %s)' % (coq_str(pv), coq_list(coq_str(n) for n in sorted(files)), coq_list(coq_str(n) for n in syms)))
        meta['cli'].append({'--prefix': pv, 'files': sorted(files), 'yaml': G.yaml_text(doc)})
    # ---- model evaluation
    body = ['From Coq Require Import List NArith.', 'Import ListNotations.',
            'From BT.Front Require Import Prefix Decls CTypes PrefixFiles.', 'From BT.Gen Require Import Decls PyFuns.', 'Open Scope N_scope.',
            'Definition c_v2 : list (str * (str * str)) := %s.' % coq_list(coq_cases['v2']),
            'Definition c_cfg : list (str * (str * str)) := %s.' % coq_list(coq_cases['cfg']),
            'Definition c_sym : list (str * list (str * list str) * list str) := %s.' % coq_list(coq_cases['sym']),
            'Definition c_macro : list (str * str * str * str) := %s.' % coq_list(coq_cases['macro']),
            'Definition c_cli : list (str * list str * list str) := %s.' % coq_list(coq_cases['cli']),
            'Eval vm_compute in (failing_cases v2_prefix_case_ok 0%nat c_v2, failing_cases cfg_prefix_case_ok 0%nat c_cfg,',
            '  failing_cases (symbols_case_ok decls) 0%nat c_sym, failing_cases macro_case_ok 0%nat c_macro, failing_cases cli_case_ok 0%nat c_cli).']
    rc, out = run_cases_v('c19_cases', '\n'.join(body) + '\n', ctx.scratch)
    m = re.search(r'=\s*\((.*)\)\s*:\s*list nat \* list nat', out, re.S)
    fails = {}
    if rc != 0 or not m:
        ctx.corr_broken.append('C19 model evaluation failed: %s' % out[-400:])
    else:
        groups = re.findall(r'\[(.*?)\]', m.group(1).replace('\n', ' '))
        for k, g in zip(['v2', 'cfg', 'sym', 'macro', 'cli'], groups):
            fails[k] = [int(t.replace('%nat', '').strip()) for t in g.split(';') if t.strip()]
        for k, ix in fails.items():
            for i in ix[:2]:
                what = {'v2': 'Gen/PyFuns v3_prefixes_from_v2_prefix disagrees with the real function',
                        'cfg': 'Gen/PyFuns cfg_prefixes_of_str disagrees with the prefixes of the real Configuration',
                        'sym': 'symbols defined by the compiled generated source differ from the set predicted from Gen/Decls',
                        'macro': 'the preprocessor expansion of the shorthand macro / tracepoint() is not the tracing function of the default stream',
                        'cli': 'files / symbols produced with --prefix differ from cli_prefix_override'}[k]
                if k in ('macro', 'cli'):
                    ctx.violation(what + ': %r' % (meta[k][i],), {'case': meta[k][i]})
                else:
                    ctx.corr_broken.append(what)
                    ctx.notes.append('first disagreeing %s case: %r' % (k, meta[k][i]))
    ncases = sum(len(v) for v in coq_cases.values())
    ctx.cov.update({
        'evaluations': ncases + linked * 3 + 1,
        'distinct_nontrivial': len(set(coq_cases['v2'])) + len(coq_cases['sym']) + len(coq_cases['macro']) + len(coq_cases['cli']) + linked,
        'rule': 'cases evaluated on the Coq model (prefix function arguments, nm symbol sets of compiled random configurations, preprocessor expansions, CLI runs) + linked two-tracer programs run interleaved and compared with each tracer alone',
        'prefix_function_cases': len(coq_cases['v2']), 'config_prefix_cases': len(coq_cases['cfg']),
        'nm_symbol_set_cases': len(coq_cases['sym']), 'macro_expansion_cases': len(coq_cases['macro']), 'cli_cases': len(coq_cases['cli']),
        'two_tracer_programs_linked_and_run': linked, 'model_case_failures': fails,
        'nested_prefix_witness_duplicate_symbols': nested,
        'writable_data_symbols_seen_by_nm': data_syms,
        'validated_not_proved': 'nm/linker/preprocessor behaviour is sampled (toolchain facts); the proof covers the declaration list scanned from the templates',
        'samples': [{'prefix': str(s['prefix']), 'nm': s['nm'][:6]} for s in meta['sym'][:3]] + meta['macro'][:2],
    })
