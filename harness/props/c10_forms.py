"""Systematic VALID barectf 3 documents: every position where a field type can be written, in
every admissible form.

  positions   trace type features (magic, uuid, data-stream-type-id), the six packet features, the
              two event-record features, a packet-context extra member, the event record common
              context, the specific context, the payload, a structure member, a static and a dynamic
              array element, and an alias itself
  forms       true / false (features), alias name, full object, object with `$inherit: <alias>` plus
              an overriding property, alias chain (alias -> alias name -> alias inheriting an alias),
              and for structure members the short `- name: alias` entry

`form_bases()`     one document per form, with EVERY position written in that form (when the form is
                   admissible there): bases of the structural fault enumeration too.
`position_form_docs()`  one minimal document per (position, form).
Every one of them must load, generate and compile."""
import copy

from props.c09_docs import Base, MAIN

UUID = '79e49040-21b5-42d4-a873-677261696e65'

ALIASES = {
    'u8': {'class': 'uint', 'size': 8},
    'u16': {'class': 'unsigned-integer', 'size': 16, 'alignment': 16},
    'u32': {'class': 'uint', 'size': 32, 'alignment': 32},
    'u64': {'class': 'uint', 'size': 64},
    'u32hex': {'$inherit': 'u32', 'preferred-display-base': 'hex'},          # alias inheriting an alias
    'u32ref': 'u32hex',                                                       # alias that is an alias name
    'u32chain': {'$inherit': 'u32ref', 'alignment': 8},                       # inherits through the name
    'u8ref': 'u8',
    'en8': {'class': 'uenum', 'size': 8, 'mappings': {'A': [0], 'B': [[1, 5]]}},
    'uuid_arr': {'class': 'static-array', 'length': 16, 'element-field-type': 'u8'},
    'uuid_arr_ref': 'uuid_arr',
    'str': {'class': 'string'},
    'pair': {'class': 'static-array', 'length': 2, 'element-field-type': 'u16'},
    's_ctx': {'class': 'struct', 'members': [{'ca': 'u8'}, {'cb': {'field-type': 'u16'}}]},
    's_ctx_ref': 's_ctx',
    's_ctx2': {'$inherit': 's_ctx', 'minimum-alignment': 8, 'members': [{'cc': {'field-type': 'str'}}]},
}

FORMS = ('true', 'false', 'alias', 'object', 'inherit', 'chain')


def uint_form(form, size=32):
    """an unsigned integer field type of `size` bits in the given form (None: not admissible)"""
    if form == 'true':
        return True
    if form == 'false':
        return False
    if form == 'alias':
        return {8: 'u8', 16: 'u16', 32: 'u32', 64: 'u64'}[size]
    if form == 'object':
        return {'class': 'uint', 'size': size}
    if form == 'inherit':
        # the override makes the size: inherit from an alias of ANOTHER size
        return {'$inherit': 'u16' if size != 16 else 'u32', 'size': size, 'alignment': 8}
    if form == 'chain':
        if size == 32:
            return 'u32chain'
        if size == 8:
            return 'u8ref'
        return {'$inherit': 'u32chain', 'size': size}
    raise ValueError(form)


def struct_form(form):
    if form == 'alias':
        return 's_ctx'
    if form == 'object':
        return {'class': 'struct', 'members': [{'oa': {'field-type': {'class': 'uint', 'size': 8}}}]}
    if form == 'inherit':
        return {'$inherit': 's_ctx', 'members': [{'extra': {'field-type': {'class': 'str'}}}]}
    if form == 'chain':
        return 's_ctx2' if False else {'$inherit': 's_ctx_ref', 'minimum-alignment': 16}
    return None


def member_form(name, form):
    """a structure member entry whose field type is in the given form"""
    if form == 'alias':
        return {name: {'field-type': 'u16'}}
    if form == 'short':
        return {name: 'u16'}
    if form == 'object':
        return {name: {'field-type': {'class': 'sint', 'size': 12}}}
    if form == 'inherit':
        return {name: {'field-type': {'$inherit': 'en8', 'size': 16}}}
    if form == 'chain':
        return {name: {'field-type': 'u32ref'}}
    return None


def elem_form(form):
    if form == 'alias':
        return 'u16'
    if form == 'object':
        return {'class': 'uint', 'size': 8}
    if form == 'inherit':
        return {'$inherit': 'u8', 'preferred-display-base': 'oct'}
    if form == 'chain':
        return 'u8ref'
    return None


def uuid_form(form):
    if form in ('true', 'false'):
        return form == 'true'
    if form == 'alias':
        return 'uuid_arr'
    if form == 'object':
        return {'class': 'static-array', 'length': 16, 'element-field-type': {'class': 'uint', 'size': 8}}
    if form == 'inherit':
        return {'$inherit': 'uuid_arr', 'length': 16}
    if form == 'chain':
        return 'uuid_arr_ref'
    return None


PKT = ('total-size-field-type', 'content-size-field-type', 'beginning-timestamp-field-type',
       'end-timestamp-field-type', 'discarded-event-records-counter-snapshot-field-type',
       'sequence-number-field-type')
ER = ('type-id-field-type', 'timestamp-field-type')
NO_FALSE = ('total-size-field-type', 'content-size-field-type')


def minimal():
    """a small valid document with a default clock, one data stream type, one event record type"""
    return {'trace': {'type': {
        'native-byte-order': 'little-endian',
        'uuid': UUID,
        '$field-type-aliases': copy.deepcopy(ALIASES),
        'clock-types': {'clk': {'$c-type': 'uint64_t'}},
        'data-stream-types': {'d': {
            '$is-default': True,
            '$default-clock-type-name': 'clk',
            'event-record-types': {'e': {'payload-field-type': {
                'class': 'struct', 'members': [{'p0': {'field-type': {'class': 'uint', 'size': 8}}}]}}},
        }},
    }}}


# (position name, function(doc, form) -> True when the form was written there)
def _set_tt_feature(key, val_of):
    def fn(doc, form):
        v = val_of(form)
        if v is None:
            return False
        doc['trace']['type'].setdefault('$features', {})[key] = v
        return True
    return fn


def _set_dst_feature(grp, key):
    def fn(doc, form):
        if form == 'false' and key in NO_FALSE:
            return False
        # the total size field type is never narrower than the content size field type (default 64)
        size = 64 if ('timestamp' in key or key == 'total-size-field-type') else 32
        doc['trace']['type']['data-stream-types']['d'].setdefault('$features', {}).setdefault(grp, {})[key] = \
            uint_form(form, size)
        return True
    return fn


def _dst(doc):
    return doc['trace']['type']['data-stream-types']['d']


def _pos_pcx(doc, form):
    m = member_form('pcx_m', form)
    if m is None:
        return False
    _dst(doc).setdefault('packet-context-field-type-extra-members', []).append(m)
    return True


def _pos_pcx_short(doc, form):
    if form != 'alias':
        return False
    _dst(doc).setdefault('packet-context-field-type-extra-members', []).append(member_form('pcx_s', 'short'))
    return True


def _pos_struct(key, where):
    def fn(doc, form):
        v = struct_form(form)
        if v is None:
            return False
        (_dst(doc) if where == 'dst' else _dst(doc)['event-record-types']['e'])[key] = v
        return True
    return fn


def _pos_member(doc, form):
    m = member_form('mem', form)
    if m is None:
        return False
    _dst(doc)['event-record-types']['e']['payload-field-type']['members'].append(m)
    return True


def _pos_member_short(doc, form):
    if form != 'alias':
        return False
    _dst(doc)['event-record-types']['e']['payload-field-type']['members'].append(member_form('mem_s', 'short'))
    return True


def _pos_elem(cls):
    def fn(doc, form):
        e = elem_form(form)
        if e is None:
            return False
        ft = {'class': cls, 'element-field-type': e}
        if cls == 'static-array':
            ft['length'] = 3
        _dst(doc)['event-record-types']['e']['payload-field-type']['members'].append(
            {'arr_' + cls.split('-')[0]: {'field-type': ft}})
        return True
    return fn


def _pos_alias(doc, form):
    """an alias itself written in the form, and used"""
    al = doc['trace']['type']['$field-type-aliases']
    if form == 'alias':
        al['zz_a'] = 'u16'
    elif form == 'object':
        al['zz_a'] = {'class': 'uint', 'size': 24}
    elif form == 'inherit':
        al['zz_a'] = {'$inherit': 'u16', 'size': 24}
    elif form == 'chain':
        al['zz_a'] = {'$inherit': 'u32chain', 'preferred-display-base': 'bin'}
    else:
        return False
    _dst(doc)['event-record-types']['e']['payload-field-type']['members'].append({'via_alias': 'zz_a'})
    return True


def _magic(form):
    return uint_form(form, 32)


def _dstid(form):
    return uint_form(form, 16)


POSITIONS = (
    [('tt.magic-field-type', _set_tt_feature('magic-field-type', _magic)),
     ('tt.uuid-field-type', _set_tt_feature('uuid-field-type', uuid_form)),
     ('tt.data-stream-type-id-field-type', _set_tt_feature('data-stream-type-id-field-type', _dstid))] +
    [('packet.' + k, _set_dst_feature('packet', k)) for k in PKT] +
    [('event-record.' + k, _set_dst_feature('event-record', k)) for k in ER] +
    [('pcx-member', _pos_pcx), ('pcx-member-short', _pos_pcx_short),
     ('common-context', _pos_struct('event-record-common-context-field-type', 'dst')),
     ('specific-context', _pos_struct('specific-context-field-type', 'ert')),
     ('payload', _pos_struct('payload-field-type', 'ert')),
     ('member', _pos_member), ('member-short', _pos_member_short),
     ('static-array-element', _pos_elem('static-array')), ('dynamic-array-element', _pos_elem('dynamic-array')),
     ('alias', _pos_alias)])


def form_doc(form):
    """every position written in `form` (where admissible); returns (tree, positions written)"""
    doc, done = minimal(), []
    for name, fn in POSITIONS:
        if name == 'payload':
            continue   # replacing the payload would drop the members added by other positions
        if fn(doc, form):
            done.append(name)
    return doc, done


def form_bases():
    res = []
    for form in FORMS:
        doc, done = form_doc(form)
        b = Base('v3form-' + form, 3, {MAIN: doc}, {MAIN: 'config'})
        b.positions = done
        res.append(b)
    return res


def position_form_docs():
    """[(name, tree)] one minimal document per (position, form)"""
    res = []
    for name, fn in POSITIONS:
        for form in FORMS:
            doc = minimal()
            if fn(doc, form):
                res.append(('%s=%s' % (name, form), doc))
    return res
