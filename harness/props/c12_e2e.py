"""C12 end-to-end part: generated inclusion trees, alias chains and inheritance chains, loaded through
the REAL barectf.effective_configuration_file and compared with what the documentation prescribes.

The expected result is computed by `Doc` below — a transcription of include.adoc / ft-obj.adoc /
patching-rules-table.adoc (it uses c12_trees.patch_spec, never barectf code) — which removes every
`$include`, alias and `$inherit` from the configuration.  Both the original configuration and the
flattened one are then given to the real front end: the two effective configurations must be the
same tree (the later stages, which C12 does not talk about, are thereby applied to both sides).
`ImplLike` is the reading the Coq models Include/Alias/Inherit formalise (what the code does); it
is used to classify a deviation from `Doc` so that a finding gets a specific key.
"""
import collections
import copy
import os
from concurrent.futures import ProcessPoolExecutor

import yaml

from props import c12_trees as T

OD = collections.OrderedDict
V3_TAG = 'tag:barectf.org,2020/3/config'


# ------------------------------------------------------------------ YAML in / out (harness side)

class _Dumper(yaml.SafeDumper):
    def ignore_aliases(self, data):
        return True


_Dumper.add_representer(OD, lambda d, n: d.represent_mapping('tag:yaml.org,2002:map', n.items()))


def dump(tree, v3root=False):
    s = yaml.dump(tree, Dumper=_Dumper, default_flow_style=False, sort_keys=False, width=1000)
    if v3root:
        s = '--- !<%s>\n' % V3_TAG + s
    return s


class _Loader(yaml.SafeLoader):
    pass


def _map_ctor(loader, node):
    loader.flatten_mapping(node)
    return OD(loader.construct_pairs(node, deep=True))


_Loader.add_constructor('tag:yaml.org,2002:map', _map_ctor)
_Loader.add_constructor(V3_TAG, _map_ctor)


def load(text):
    return yaml.load(text, Loader=_Loader)


# ------------------------------------------------------------------ the documented semantics

class SpecError(Exception):
    """The documentation says this is a configuration error (cycle, missing file / alias)."""


CHILDREN = {
    3: {'trace': [('type', 'one', 'trace-type')],
        'trace-type': [('clock-types', 'each', 'clock-type'), ('data-stream-types', 'each', 'dst')],
        'dst': [('event-record-types', 'each', 'ert')], 'ert': [], 'clock-type': []},
    2: {'metadata': [('trace', 'one', 'trace-type'), ('clocks', 'each', 'clock-type'), ('streams', 'each', 'dst')],
        'trace-type': [], 'dst': [('events', 'each', 'ert')], 'ert': [], 'clock-type': []},
}


def pkg_files(major):
    d = os.path.join(os.environ.get('VERIF_REPO', '/repo'), 'barectf', 'include', str(major))
    res = {}
    for fn in sorted(os.listdir(d)):
        if fn.endswith('.yaml'):
            with open(os.path.join(d, fn)) as f:
                res[fn] = load(f.read())
    return res


class Doc:
    """include.adoc: the items of `$include` are processed in order, each file searched in the
    inclusion directories in order; the effective object is the including object patching the
    included documents; a recursive inclusion is an error.
    ft-obj.adoc: an alias name stands for the aliased field type object; the effective object of
    `$inherit: B` is the object patching B."""

    def __init__(self, major, dirs):
        self.major = major
        self.v3 = major == 3
        self.dirs = dirs            # [(dir id, {file name: tree})], in search order
        self.opened = []            # files opened, in order (for the coverage report)

    # ---- inclusion
    def find(self, name):
        for did, files in self.dirs:
            if name in files:
                return (did, name), files[name]
        raise SpecError('not-found:' + name)

    def include(self, node, kind, stack=()):
        node = copy.deepcopy(node)
        for prop, mode, ck in CHILDREN[self.major][kind]:
            if prop in node and type(node[prop]) is OD:
                if mode == 'one':
                    node[prop] = self.include(node[prop], ck, stack)
                else:
                    for k in list(node[prop]):
                        node[prop][k] = self.include(node[prop][k], ck, stack)
        if '$include' not in node:
            return node
        inc = node.pop('$include')
        paths = [inc] if type(inc) is str else list(inc)
        base = None
        for p in paths:
            ident, tree = self.find(p)
            if ident in stack:
                raise SpecError('cycle:' + p)
            self.opened.append(ident)
            ov = self.include(tree, kind, stack + (ident,))
            base = ov if base is None else T.patch_spec(self.v3, ov, base)
        return T.patch_spec(self.v3, node, base)

    # ---- field types
    members_key = property(lambda s: 'members' if s.v3 else 'fields')
    nested_keys = property(lambda s: ['element-field-type'] if s.v3 else ['value-type', 'element-type'])

    def norm_members(self, ft):
        """`- name: alias` is the short form of `- name: {field-type: alias}` (barectf 3)."""
        if not self.v3 or type(ft) is not OD:
            return
        ms = ft.get('members')
        if type(ms) is list:
            for m in ms:
                if type(m) is OD and len(m) == 1:
                    (n, v), = m.items()
                    if type(v) is str:
                        m[n] = OD([('field-type', v)])

    def nested(self, ft):
        """(parent, key) pairs of the field type positions directly inside the object ft."""
        res = []
        for k in self.nested_keys:
            if k in ft:
                res.append((ft, k))
        ms = ft.get(self.members_key)
        if self.v3 and type(ms) is list:
            for m in ms:
                if type(m) is OD and len(m) == 1:
                    v = list(m.values())[0]
                    if type(v) is OD and 'field-type' in v:
                        res.append((v, 'field-type'))
        if not self.v3 and type(ms) is OD:
            for k in ms:
                res.append((ms, k))
        return res

    def inherit_key(self, ft):
        for k in ('$inherit', 'inherit'):
            if k in ft:
                return k
        return None

    def alias_object(self, aliases, name, prog):
        """The (un-inherited, not alias-expanded) object an alias name stands for."""
        if name not in aliases:
            raise SpecError('no-alias:' + str(name))
        if name in prog:
            raise SpecError('alias-cycle:' + name)
        v = aliases[name]
        if type(v) is str:
            return self.alias_object(aliases, v, prog + (name,))
        return self.inh(aliases, v, prog + (name,))

    def inh(self, aliases, ft, prog):
        """Object with its inheritance applied (innermost objects first); alias names inside stay."""
        if type(ft) is not OD:
            return ft
        ft = copy.deepcopy(ft)
        self.norm_members(ft)
        for parent, key in self.nested(ft):
            if type(parent[key]) is OD:
                parent[key] = self.inh(aliases, parent[key], prog)
        ik = self.inherit_key(ft)
        if ik is not None:
            name = ft.pop(ik)
            base = self.alias_object(aliases, name, prog) if type(name) is str else self.inh(aliases, name, prog)
            if type(base) is not OD:
                raise SpecError('inherit-non-object')
            ft = T.patch_spec(self.v3, ft, base)
        return ft

    def eff(self, aliases, ft, prog=()):
        """Effective field type object: no alias, no `$inherit` left."""
        if type(ft) is str:
            if ft not in aliases:
                raise SpecError('no-alias:' + ft)
            if ft in prog:
                raise SpecError('alias-cycle:' + ft)
            return self.eff(aliases, aliases[ft], prog + (ft,))
        if type(ft) is not OD:
            return ft
        ft = self.inh(aliases, ft, prog)
        for parent, key in self.nested(ft):
            parent[key] = self.eff(aliases, parent[key], prog)
        return ft

    # ---- whole configuration
    def ft_positions(self, root):
        """(parent, key) of every top-level field type position of the configuration tree."""
        res = []
        if self.v3:
            tt = root['trace']['type']
            feats = tt.get('$features')
            if type(feats) is OD:
                for k in ('magic-field-type', 'uuid-field-type', 'data-stream-type-id-field-type'):
                    res.append((feats, k))
            for dst in tt['data-stream-types'].values():
                feats = dst.get('$features')
                if type(feats) is OD:
                    for sub in ('packet', 'event-record'):
                        if type(feats.get(sub)) is OD:
                            for k in feats[sub]:
                                res.append((feats[sub], k))
                for m in dst.get('packet-context-field-type-extra-members') or []:
                    (n, v), = m.items()
                    if type(v) is str:
                        m[n] = v = OD([('field-type', v)])
                    res.append((v, 'field-type'))
                res.append((dst, 'event-record-common-context-field-type'))
                for ert in dst['event-record-types'].values():
                    res.append((ert, 'specific-context-field-type'))
                    res.append((ert, 'payload-field-type'))
        else:
            meta = root['metadata']
            res.append((meta['trace'], 'packet-header-type'))
            for dst in meta['streams'].values():
                for k in ('packet-context-type', 'event-header-type', 'event-context-type'):
                    res.append((dst, k))
                for ert in dst['events'].values():
                    res.append((ert, 'context-type'))
                    res.append((ert, 'payload-type'))
        return [(p, k) for p, k in res if k in p and type(p[k]) in (OD, str)]

    def flatten(self, root):
        """Configuration tree without `$include`, aliases and `$inherit`."""
        root = copy.deepcopy(root)
        if self.v3:
            root['trace'] = self.include(root['trace'], 'trace')
            holder, akey = root['trace']['type'], '$field-type-aliases'
        else:
            root['metadata'] = self.include(root['metadata'], 'metadata')
            holder, akey = root['metadata'], 'type-aliases'
        aliases = holder.get(akey)
        if aliases is None:
            holder.pop(akey, None)
            return root
        for parent, key in self.ft_positions(root):
            parent[key] = self.eff(aliases, parent[key])
        del holder[akey]
        return root


class ImplLike(Doc):
    """What the code does for field types (and what Front/Alias.v + Front/Inherit.v model): every
    alias name — the value of `$inherit` included — is first replaced by a copy of the completely
    alias-expanded object; inheritance is applied afterwards, innermost first."""

    def expand(self, aliases, ft, prog):
        if type(ft) is str:
            if ft not in aliases:
                raise SpecError('no-alias:' + ft)
            if ft in prog:
                raise SpecError('alias-cycle:' + ft)
            return self.expand(aliases, aliases[ft], prog + (ft,))
        if type(ft) is not OD:
            return ft
        ft = copy.deepcopy(ft)
        self.norm_members(ft)
        for k in ('$inherit', 'inherit'):
            if k in ft:
                ft[k] = self.expand(aliases, ft[k], prog)
        for parent, key in self.nested(ft):
            parent[key] = self.expand(aliases, parent[key], prog)
        return ft

    def apply(self, ft):
        if type(ft) is not OD:
            return ft
        for parent, key in self.nested(ft):
            parent[key] = self.apply(parent[key])
        ik = self.inherit_key(ft)
        if ik is not None:
            base = self.apply(ft.pop(ik))
            if type(base) is not OD:
                raise SpecError('inherit-non-object')
            ft = T.patch_spec(self.v3, ft, base)
        return ft

    def eff(self, aliases, ft, prog=()):
        return self.apply(self.expand(aliases, ft, prog))


# ------------------------------------------------------------------ scenario generation

INT_ALIASES_V3 = ['uint8', 'uint16', 'uint32', 'sint8', 'int16']
INT_ALIASES_V2 = ['uint8', 'uint16', 'uint32', 'int8', 'int16']


class ScenGen:
    def __init__(self, rng, major):
        self.r = rng
        self.major = major
        self.v3 = major == 3
        self.nfile = 0
        self.ints = INT_ALIASES_V3 if self.v3 else INT_ALIASES_V2
        self.stats = collections.Counter()

    # ---- small value pools
    def int_ft(self):
        r = self.r
        if self.v3:
            ft = OD([('class', r.choice(['uint', 'unsigned-integer', 'sint', 'signed-int'])), ('size', r.choice([8, 16, 24, 32, 64]))])
            if r.random() < 0.5:
                ft['alignment'] = r.choice([1, 8, 16, 32])
            if r.random() < 0.4:
                ft['preferred-display-base'] = r.choice(['hex', 'bin', 'oct', 'dec', None])
        else:
            ft = OD([('class', 'int'), ('size', r.choice([8, 16, 24, 32, 64]))])
            if r.random() < 0.5:
                ft['align'] = r.choice([1, 8, 16, 32])
            if r.random() < 0.5:
                ft['signed'] = r.random() < 0.5
            if r.random() < 0.4:
                ft['base'] = r.choice(['hex', 'bin', 'oct', 'dec', None])
        return ft

    def int_patch(self):
        """A partial object that stays valid when merged over an integer field type."""
        r = self.r
        res = OD()
        keys = (['size', 'alignment', 'preferred-display-base'] if self.v3 else ['size', 'align', 'base', 'signed'])
        for k in r.sample(keys, r.randrange(1, len(keys) + 1)):
            if k == 'size':
                res[k] = r.choice([8, 16, 32, 64])
            elif k in ('alignment', 'align'):
                res[k] = r.choice([8, 16, 32, None])
            elif k == 'signed':
                res[k] = r.random() < 0.5
            else:
                res[k] = r.choice(['hex', 'dec', 'bin', None])
        return res

    def enum_ft(self):
        r = self.r
        if self.v3:
            return OD([('class', r.choice(['uenum', 'unsigned-enumeration'])), ('size', 8),
                       ('mappings', OD([(l, self.ranges()) for l in r.sample(['A', 'B', 'C', 'members'], r.randrange(1, 4))]))])
        return OD([('class', 'enum'), ('value-type', r.choice(['uint8', OD([('class', 'int'), ('size', 8)])])),
                   ('members', [r.choice(['a', 'b', OD([('label', 'c'), ('value', 7)]), OD([('label', 'd'), ('value', [9, 11])])]) for _ in range(r.randrange(1, 3))])])

    def ranges(self):
        r = self.r
        return [r.choice([r.randrange(0, 50), [r.randrange(0, 20), r.randrange(20, 60)]]) for _ in range(r.randrange(1, 3))]

    def member_ft(self, name):
        """Field type for a member; the first letter of the name fixes its family so that patches
        from different files stay compatible most of the time."""
        r = self.r
        fam = name[0]
        x = r.random()
        if fam == 'i':
            return r.choice(self.ints) if x < 0.45 else self.int_ft()
        if fam == 'e':
            return self.enum_ft()
        if fam == 's':
            return 'string' if x < 0.6 else OD([('class', r.choice(['string', 'str']) if self.v3 else 'string')])
        if self.v3:
            return OD([('class', 'static-array'), ('length', r.randrange(1, 5)), ('element-field-type', r.choice(self.ints + [self.int_ft()]))])
        return OD([('class', 'array'), ('length', r.randrange(1, 5)), ('element-type', r.choice(self.ints + [self.int_ft()]))])

    def member_names(self, n):
        return self.r.sample(['i1', 'i2', 'i3', 'e1', 's1', 'a1', 'i4'], n)

    def struct_ft(self, full=True):
        r = self.r
        names = self.member_names(r.randrange(1, 5))
        if self.v3:
            ms = []
            for n in names:
                ft = self.member_ft(n)
                if type(ft) is str and r.random() < 0.6:
                    ms.append(OD([(n, ft)]))
                else:
                    ms.append(OD([(n, OD([('field-type', ft)]))]))
            res = OD()
            if full:
                res['class'] = r.choice(['struct', 'structure'])
            if r.random() < 0.3:
                res['minimum-alignment'] = r.choice([8, 16, None])
            res['members'] = ms
            return res
        res = OD()
        if full:
            res['class'] = 'struct'
        if r.random() < 0.3:
            res['min-align'] = r.choice([8, 16, None])
        res['fields'] = OD([(n, self.member_ft(n)) for n in names])
        return res

    def struct_patch(self):
        """Partial structure object: new members, replaced members, partial member patches."""
        r = self.r
        st = self.struct_ft(full=r.random() < 0.3)
        if self.v3:
            for m in st['members']:
                (n, v), = m.items()
                if n[0] == 'i' and r.random() < 0.35:
                    m[n] = OD([('field-type', self.int_patch_full())])
        else:
            for n in list(st['fields']):
                if n[0] == 'i' and r.random() < 0.35:
                    st['fields'][n] = self.int_patch_full()
        return st

    def int_patch_full(self):
        p = self.int_patch()
        res = OD([('class', 'uint' if self.v3 else 'int')])
        res.update(p)
        if 'size' not in res:
            res['size'] = 16
        return res

    # ---- partial objects per includable kind
    def partial(self, kind, level, names):
        """A partial object of the given kind; may itself include further files."""
        r = self.r
        node = OD()
        if kind == 'clock-type':
            pool = [('frequency' if self.v3 else 'freq', lambda: r.choice([1, 1000, 1000000, 8000000])),
                    ('offset', lambda: r.choice([None, OD([('seconds', r.randrange(0, 99))]), OD([('cycles', r.randrange(0, 99))]),
                                                 OD([('seconds', r.randrange(0, 99)), ('cycles', r.randrange(0, 99))])])),
                    ('precision' if self.v3 else 'error-cycles', lambda: r.choice([0, 1, 7, None])),
                    ('description', lambda: r.choice(['clk a', 'clk "b"', None]))]
            if self.v3:
                pool += [('origin-is-unix-epoch', lambda: r.choice([True, False, None])), ('$c-type', lambda: r.choice(['uint64_t', 'unsigned long', 'uint32_t']))]
            else:
                pool += [('absolute', lambda: r.choice([True, False, None])), ('$return-ctype', lambda: r.choice(['uint64_t', 'unsigned long', 'uint32_t']))]
            for k, f in r.sample(pool, r.randrange(1, len(pool) + 1)):
                node[k] = f()
        elif kind == 'ert':
            ll = 'log-level'
            pk, ck = ('payload-field-type', 'specific-context-field-type') if self.v3 else ('payload-type', 'context-type')
            if r.random() < 0.6:
                node[ll] = r.choice([0, 3, 12, 'LA', 'LB', None])
            if r.random() < 0.8:
                node[pk] = self.struct_patch() if r.random() < 0.9 else None
            if r.random() < 0.4:
                node[ck] = self.struct_ft() if r.random() < 0.85 else None
            if r.random() < 0.5:
                items = list(node.items())
                r.shuffle(items)
                node = OD(items)
        elif kind == 'dst':
            if self.v3:
                if r.random() < 0.4:
                    node['$is-default'] = r.choice([True, False, None])
                if r.random() < 0.4:
                    feats = OD()
                    if r.random() < 0.7:
                        pkt = OD()
                        for k in r.sample(['sequence-number-field-type', 'discarded-event-records-counter-snapshot-field-type'], r.randrange(1, 3)):
                            pkt[k] = r.choice([True, False, 'uint32', 'uint16', self.int_ft_unsigned()])
                        feats['packet'] = pkt
                    if r.random() < 0.5:
                        feats['event-record'] = OD([('type-id-field-type', r.choice(['uint8', 'uint16', True, self.int_ft_unsigned()]))])
                    node['$features'] = feats
                if r.random() < 0.5:
                    node['packet-context-field-type-extra-members'] = [
                        OD([('x%d_%d' % (self.nfile, i), r.choice(['uint8', OD([('field-type', self.int_ft())]), OD([('field-type', 'string')])]))])
                        for i in range(r.randrange(1, 3))]
                if r.random() < 0.4:
                    node['event-record-common-context-field-type'] = self.struct_ft()
                ek = 'event-record-types'
            else:
                if r.random() < 0.4:
                    node['$default'] = r.choice([True, False, None])
                if r.random() < 0.4:
                    node['event-context-type'] = self.struct_ft()
                ek = 'events'
            if r.random() < 0.7:
                erts = OD()
                for n in r.sample(names['ert'], r.randrange(1, len(names['ert']) + 1)):
                    erts[n] = self.with_include('ert', level, names)
                node[ek] = erts
        elif kind == 'trace-type':
            if self.v3:
                if r.random() < 0.5:
                    node['$log-level-aliases'] = OD([(k, r.randrange(0, 15)) for k in r.sample(['LA', 'LB', 'LC'], r.randrange(1, 4))])
                if r.random() < 0.5:
                    node['$field-type-aliases'] = self.alias_patch()
                if r.random() < 0.3:
                    node['$features'] = OD([(k, r.choice([True, False, 'uint32']) if k[0] == 'm' else r.choice([True, True, 'uint16', 'uint8']))
                                             for k in r.sample(['magic-field-type', 'data-stream-type-id-field-type'], r.randrange(1, 3))])
                if r.random() < 0.3:
                    node['uuid'] = r.choice(['79e49040-21b5-42d4-a83b-646f78666b62', 'c6e53f36-7b2f-4c6c-8d5b-0c2a5a0e1f11', None])
                if r.random() < 0.5:
                    node['clock-types'] = OD([(n, self.with_include('clock-type', level, names)) for n in r.sample(names['clk'], r.randrange(1, len(names['clk']) + 1))])
                if r.random() < 0.6:
                    node['data-stream-types'] = OD([(n, self.with_include('dst', level, names)) for n in r.sample(names['dst'], r.randrange(1, len(names['dst']) + 1))])
            else:
                # barectf 2 `trace` object: byte order, uuid, packet header type
                if r.random() < 0.5:
                    node['byte-order'] = r.choice(['le', 'be'])
                if r.random() < 0.4:
                    node['uuid'] = r.choice(['79e49040-21b5-42d4-a83b-646f78666b62', None])
                if r.random() < 0.6:
                    f = OD()
                    for k in r.sample(['magic', 'stream_id'], r.randrange(1, 3)):
                        f[k] = r.choice(['uint32', 'uint8', self.int_ft_unsigned()]) if k == 'stream_id' else r.choice(['uint32', OD([('class', 'int'), ('size', 32)])])
                    node['packet-header-type'] = OD([('class', 'struct'), ('fields', f)]) if r.random() < 0.7 else OD([('fields', f)])
        elif kind == 'trace':      # barectf 3 trace object
            if r.random() < 0.7:
                node['environment'] = r.choice([None] + [OD([(k, r.choice([1, 42, 'v', 'a b', -3])) for k in r.sample(['e1', 'e2', 'e3', 'members'], r.randrange(0, 4))])] * 4)
            if r.random() < 0.7:
                node['type'] = self.with_include('trace-type', level, names)
        elif kind == 'metadata':   # barectf 2 metadata object
            if r.random() < 0.5:
                node['env'] = OD([(k, r.choice([1, 42, 'v', 'a b', -3])) for k in r.sample(['e1', 'e2', 'e3'], r.randrange(0, 4))])
            if r.random() < 0.5:
                node['$log-levels'] = OD([(k, r.randrange(0, 15)) for k in r.sample(['LA', 'LB', 'LC'], r.randrange(1, 4))])
            if r.random() < 0.5:
                node['type-aliases'] = self.alias_patch()
            if r.random() < 0.5:
                node['trace'] = self.with_include('trace-type', level, names)
            if r.random() < 0.5:
                node['clocks'] = OD([(n, self.with_include('clock-type', level, names)) for n in r.sample(names['clk'], r.randrange(1, len(names['clk']) + 1))])
            if r.random() < 0.6:
                node['streams'] = OD([(n, self.with_include('dst', level, names)) for n in r.sample(names['dst'], r.randrange(1, len(names['dst']) + 1))])
        return node

    def int_ft_unsigned(self):
        ft = self.int_ft()
        if self.v3:
            ft['class'] = 'uint'
        else:
            ft['signed'] = False
        return ft

    def int_patch_unsigned(self):
        p = self.int_patch()
        p.pop('signed', None)
        return p

    def alias_patch(self):
        r = self.r
        res = OD()
        for n in r.sample(['my-int', 'my-enum', 'my-struct', 'my-alias'], r.randrange(1, 4)):
            if n == 'my-int':
                res[n] = self.int_ft() if r.random() < 0.5 else self.int_patch()
            elif n == 'my-enum':
                res[n] = self.enum_ft()
            elif n == 'my-struct':
                res[n] = self.struct_patch()
            else:
                res[n] = r.choice(self.ints)
        return res

    # ---- files
    def with_include(self, kind, level, names):
        """A partial object which, with some probability, includes generated files."""
        r = self.r
        node = self.partial(kind, level, names)
        if level < self.max_level and r.random() < (0.75 if level == 0 else 0.45):
            n = r.choice([1, 1, 2, 3])
            incs = []
            for _ in range(n):
                if self.reuse.get(kind) and r.random() < 0.2:
                    incs.append(r.choice(self.reuse[kind]))      # the same file included twice (no cycle)
                    self.stats['file-reused'] += 1
                else:
                    incs.append(self.new_file(kind, level + 1, names))
            inc = incs[0] if len(incs) == 1 and r.random() < 0.5 else incs
            items = list(node.items())
            pos = r.randrange(0, len(items) + 1)
            items.insert(pos, ('$include', inc))
            node = OD(items)
            self.stats['include:%s:level%d' % (kind, level + 1)] += len(incs)
            self.stats['include-list-length:%d' % len(incs)] += 1
        return node

    def new_file(self, kind, level, names):
        r = self.r
        self.nfile += 1
        fname = '%s-%d.yaml' % (kind, self.nfile)
        if r.random() < 0.15:
            fname = 'sub/' + fname
        tree = self.with_include(kind, level, names)
        # where the file lives: one directory, or several (shadowing: the first one in the search
        # order must win; the shadowed copies get a different content)
        ndirs = len(self.dirs)
        home = r.randrange(ndirs)
        self.dirs[home][1][fname] = tree
        if ndirs > 1 and r.random() < 0.35:
            other = r.choice([i for i in range(ndirs) if i != home])
            self.dirs[other][1][fname] = self.partial(kind, self.max_level, names)
            self.stats['file-shadowed'] += 1
        self.reuse.setdefault(kind, []).append(fname)
        return fname

    # ---- complete scenarios
    def skeleton(self, names):
        """Root configuration: carries every required property itself, so that the partial files
        only add to it or are overridden by it."""
        r = self.r
        if self.v3:
            erts = OD((n, OD([('payload-field-type', self.struct_ft())])) for n in names['ert'])
            dsts = OD()
            for i, n in enumerate(names['dst']):
                dsts[n] = OD([('$is-default', i == 0), ('event-record-types', copy.deepcopy(erts))])
            tt = OD([('$include', ['stdint.yaml', 'stdmisc.yaml']), ('native-byte-order', r.choice(['le', 'be', 'little-endian'])),
                     ('$log-level-aliases', OD([('LA', 1), ('LB', 2)])),
                     ('$field-type-aliases', OD([('my-int', OD([('class', 'uint'), ('size', 8)])), ('my-alias', 'uint8'),
                                                 ('my-enum', self.enum_ft()), ('my-struct', self.struct_ft())])),
                     ('clock-types', OD((n, OD([('frequency', 1000)])) for n in names['clk'])),
                     ('data-stream-types', dsts)])
            return OD([('trace', OD([('type', tt)]))])
        erts = OD((n, OD([('payload-type', self.struct_ft())])) for n in names['ert'])
        dsts = OD()
        for i, n in enumerate(names['dst']):
            dsts[n] = OD([('packet-context-type', OD([('class', 'struct'), ('fields', OD([('packet_size', 'uint32'), ('content_size', 'uint32')]))])),
                          ('events', copy.deepcopy(erts))])
            if len(names['dst']) > 1:
                dsts[n]['$default'] = i == 0
            if len(names['ert']) > 1:
                dsts[n]['event-header-type'] = OD([('class', 'struct'), ('fields', OD([('id', 'uint8')]))])
        meta = OD([('$include', ['stdint.yaml', 'stdmisc.yaml']),
                   ('type-aliases', OD([('my-int', OD([('class', 'int'), ('size', 8)])), ('my-alias', 'uint8'),
                                        ('my-enum', self.enum_ft()), ('my-struct', self.struct_ft())])),
                   ('$log-levels', OD([('LA', 1), ('LB', 2)])),
                   ('trace', OD([('byte-order', 'le')])),
                   ('clocks', OD((n, OD([('freq', 1000)])) for n in names['clk'])),
                   ('streams', dsts)])
        if len(names['dst']) > 1:
            meta['trace']['packet-header-type'] = OD([('class', 'struct'), ('fields', OD([('stream_id', 'uint8')]))])
        return OD([('version', r.choice(['2.2', '2.1'])), ('metadata', meta)])

    def overlay_into(self, skel, patch):
        """The root configuration is the skeleton patched by a generated partial configuration
        (harness-side construction of the input; uses the documented rules only to build a tree)."""
        return T.patch_spec(self.v3, patch, skel)

    def include_scenario(self):
        r = self.r
        self.nfile = 0
        self.reuse = {}
        self.max_level = r.choice([1, 2, 2, 3, 3])
        self.dirs = [('d%d' % i, OD()) for i in range(r.choice([1, 2, 2, 3]))]
        names = {'ert': ['ev%d' % i for i in range(r.randrange(1, 3))], 'dst': ['ds%d' % i for i in range(r.randrange(1, 3))],
                 'clk': ['clk%d' % i for i in range(r.randrange(1, 3))]}
        skel = self.skeleton(names)
        if r.random() < 0.3:
            # a user file named like a packaged standard file: the user inclusion directories are searched BEFORE the
            # package's one (include.adoc), so this copy - with other alignments - is the one the skeleton includes
            std = copy.deepcopy(pkg_files(self.major)['stdint.yaml'])
            ak, al = ('$field-type-aliases', 'alignment') if self.v3 else ('type-aliases', 'align')
            for k, v in std[ak].items():
                if type(v) is OD and al in v:
                    v[al] = 64 if v[al] != 64 else 8
            self.dirs[r.randrange(len(self.dirs))][1]['stdint.yaml'] = std
            self.stats['user-file-shadows-packaged-stdint'] += 1
        top = 'trace' if self.v3 else 'metadata'
        patch = OD([(top, self.with_include(top, 0, names))])
        holder = patch[top].get('type') if self.v3 else patch[top]
        if type(holder) is OD and type(holder.get('$include')) is str:
            holder['$include'] = [holder['$include']]      # keep the std inclusions of the skeleton
        root = self.overlay_into(skel, patch)
        # the std includes of the skeleton come first, the generated ones after
        return {'kind': 'include', 'major': self.major, 'root': root, 'dirs': self.dirs, 'expect': 'ok?'}

    def cycle_scenario(self):
        """a -> b -> ... -> a at one of the five kinds (or a file including itself)."""
        r = self.r
        names = {'ert': ['ev0'], 'dst': ['ds0'], 'clk': ['clk0']}
        skel = self.skeleton(names)
        n = r.randrange(1, 4)
        kinds = ['trace', 'trace-type', 'clock-type', 'dst', 'ert'] if self.v3 else ['metadata', 'trace-type', 'clock-type', 'dst', 'ert']
        kind = r.choice(kinds)
        files = OD()
        for i in range(n):
            files['cyc%d.yaml' % i] = OD([('$include', ['cyc%d.yaml' % ((i + 1) % n)] if r.random() < 0.5 else 'cyc%d.yaml' % ((i + 1) % n))])
        node = self.locate(skel, kind, names)
        node['$include'] = ['cyc0.yaml']
        node.move_to_end('$include', last=r.random() < 0.5)
        self.stats['cycle:%s:len%d' % (kind, n)] += 1
        return {'kind': 'cycle', 'major': self.major, 'root': skel, 'dirs': [('d0', files)], 'expect': 'error'}

    def locate(self, root, kind, names):
        if self.v3:
            tt = root['trace']['type']
            return {'trace': root['trace'], 'trace-type': tt, 'clock-type': tt['clock-types'][names['clk'][0]],
                    'dst': tt['data-stream-types'][names['dst'][0]],
                    'ert': tt['data-stream-types'][names['dst'][0]]['event-record-types'][names['ert'][0]]}[kind]
        m = root['metadata']
        return {'metadata': m, 'trace-type': m['trace'], 'clock-type': m['clocks'][names['clk'][0]],
                'dst': m['streams'][names['dst'][0]], 'ert': m['streams'][names['dst'][0]]['events'][names['ert'][0]]}[kind]

    def missing_scenario(self):
        names = {'ert': ['ev0'], 'dst': ['ds0'], 'clk': ['clk0']}
        skel = self.skeleton(names)
        kinds = ['trace', 'trace-type', 'clock-type', 'dst', 'ert'] if self.v3 else ['metadata', 'trace-type', 'clock-type', 'dst', 'ert']
        node = self.locate(skel, self.r.choice(kinds), names)
        node['$include'] = ['nowhere.yaml']
        return {'kind': 'missing', 'major': self.major, 'root': skel, 'dirs': [('d0', OD())], 'expect': 'error'}

    def alias_scenario(self, mode):
        """Alias chains and inheritance chains.  mode: 'chain' (documented and implemented readings
        agree), 'cycle', 'undefined', 'name-over-object' (an alias NAME in the inheriting object
        sits where the base has another field type: the table says it replaces)."""
        r = self.r
        names = {'ert': ['ev0'], 'dst': ['ds0'], 'clk': ['clk0']}
        skel = self.skeleton(names)
        al = OD()
        inh = '$inherit' if (self.v3 or r.random() < 0.5) else 'inherit'
        depth = r.randrange(1, 7)
        # alias-of-alias chain ending in an object
        al['c0'] = self.int_ft()
        for i in range(1, depth):
            al['c%d' % i] = 'c%d' % (i - 1)
        # inheritance chain of integers
        idepth = r.randrange(1, 6)
        al['h0'] = self.int_ft()
        for i in range(1, idepth):
            al['h%d' % i] = OD([(inh, 'h%d' % (i - 1) if (mode != 'chain' or r.random() < 0.8) else 'c%d' % (depth - 1))] + list(self.int_patch().items()))
        # inheritance chain of structures (members merged as ordered map) with nested arrays
        sdepth = r.randrange(1, 5)
        al['s0'] = self.struct_ft()
        safe_members = mode != 'name-over-object'
        for i in range(1, sdepth):
            p = self.struct_patch_for_inherit(al, 's%d' % (i - 1), safe_members)
            al['s%d' % i] = OD([(inh, 's%d' % (i - 1))] + list(p.items()))
        # enumeration inheritance: mappings are merged, ranges appended
        if self.v3:
            al['en0'] = self.enum_ft()
            al['en1'] = OD([(inh, 'en0'), ('mappings', OD([(l, self.ranges()) for l in r.sample(['A', 'B', 'D'], 2)]))])
        else:
            al['en0'] = self.enum_ft()
            al['en1'] = OD([(inh, 'en0'), ('members', ['z'])])
        # array whose element is a chain alias / an inheriting object
        ek = 'element-field-type' if self.v3 else 'element-type'
        al['ar0'] = OD([('class', 'static-array' if self.v3 else 'array'), ('length', 2), (ek, 'c%d' % (depth - 1))])
        al['ar1'] = OD([(inh, 'ar0'), ('length', 3)])
        al['ar2'] = OD([('class', 'static-array' if self.v3 else 'array'), ('length', 1), (ek, OD([(inh, 'h%d' % (idepth - 1)), ('size', 32)]))])
        users = ['c%d' % (depth - 1), 'h%d' % (idepth - 1), 'en1', 'ar1', 'ar2']
        expect = 'ok?'
        if mode == 'cycle':
            which = r.choice(['alias', 'inherit', 'member', 'self'])
            if which == 'alias':
                al['c0'] = 'c%d' % (depth - 1)
            elif which == 'inherit':
                al['h0'] = OD([(inh, 'h%d' % (idepth - 1)), ('size', 8)])
            elif which == 'member':
                if self.v3:
                    al['ar0']['element-field-type'] = 'ar1'
                else:
                    al['ar0']['element-type'] = 'ar1'
            else:
                al['selfish'] = 'selfish'
                users.append('selfish')
            self.stats['alias-cycle:' + which] += 1
            expect = 'error'
        elif mode == 'undefined':
            which = r.choice(['use', 'inherit', 'alias'])
            if which == 'use':
                users.append('nope')
            elif which == 'inherit':
                al['h0'] = OD([(inh, 'nope'), ('size', 8)])
                users.append('h0')
            else:
                al['c0'] = 'nope'
            expect = 'error'
        r.shuffle(users)
        items = list(al.items())
        r.shuffle(items)
        al = OD(items)
        if self.v3:
            tt = skel['trace']['type']
            tt['$field-type-aliases'].update(al)
            ert = tt['data-stream-types']['ds0']['event-record-types']['ev0']
            ms = []
            for i, u in enumerate(users):
                ms.append(OD([('f%d' % i, u if r.random() < 0.5 else OD([('field-type', u)]))]))
            ms.append(OD([('g', OD([('field-type', OD([('$inherit', 'h%d' % (idepth - 1)), ('alignment', 8)]))]))]))
            ert['payload-field-type'] = OD([('class', 'struct'), ('members', ms)])
            ert['specific-context-field-type'] = OD([('$inherit', 's%d' % (sdepth - 1))]) if r.random() < 0.5 else 's%d' % (sdepth - 1)
        else:
            meta = skel['metadata']
            meta['type-aliases'].update(al)
            ert = meta['streams']['ds0']['events']['ev0']
            f = OD(('f%d' % i, u) for i, u in enumerate(users))
            f['g'] = OD([(inh, 'h%d' % (idepth - 1)), ('align', 8)])
            ert['payload-type'] = OD([('class', 'struct'), ('fields', f)])
            ert['context-type'] = OD([(inh, 's%d' % (sdepth - 1))]) if r.random() < 0.5 else 's%d' % (sdepth - 1)
        self.stats['alias-chain-depth:%d' % depth] += 1
        self.stats['inherit-chain-depth:%d' % idepth] += 1
        self.stats['struct-inherit-chain-depth:%d' % sdepth] += 1
        return {'kind': 'alias:' + mode, 'major': self.major, 'root': skel, 'dirs': [('d0', OD())], 'expect': expect}

    def struct_patch_for_inherit(self, al, base_name, safe):
        """Members patch for `$inherit: base_name` (chain rooted at alias s0).
        safe: only new member names, or partial integer objects over members of s0 that are
        integer OBJECTS (so that the documented and the implemented readings agree).
        not safe: alias NAMES over existing members, partial objects over alias-named members."""
        r = self.r
        if self.v3:
            s0 = OD()
            for m in al['s0']['members']:
                (n, v), = m.items()
                s0[n] = v['field-type'] if type(v) is OD else v
        else:
            s0 = al['s0']['fields']
        obj_ints = [n for n, v in s0.items() if n[0] == 'i' and type(v) is OD]
        entries = []
        for n in self.member_names(r.randrange(0, 3)):
            entries.append(('n%d_%s' % (len(al), n), self.member_ft(n)))
        for n in r.sample(obj_ints, min(len(obj_ints), r.randrange(0, 3))):
            entries.append((n, self.int_patch_full()))
        if not safe:
            names = list(s0)
            for n in r.sample(names, min(len(names), 2)):
                entries = [e for e in entries if e[0] != n]
                if type(s0[n]) is str and n[0] == 'i' and r.random() < 0.3:
                    entries.append((n, self.int_patch_full()))
                else:
                    entries.append((n, r.choice(['uint8', 'string', 'c0', 'h0'])))
        r.shuffle(entries)
        p = OD()
        if r.random() < 0.3:
            p['minimum-alignment' if self.v3 else 'min-align'] = r.choice([8, 32, None])
        if self.v3:
            p['members'] = [OD([(n, v if type(v) is str and r.random() < 0.5 else OD([('field-type', v)]))]) for n, v in entries]
        else:
            p['fields'] = OD(entries)
        return p

    @staticmethod
    def inherit_key_of(ft):
        for k in ('$inherit', 'inherit'):
            if type(ft) is OD and k in ft:
                return k
        return None


# ------------------------------------------------------------------ running the real front end

def write_scenario(s, path):
    os.makedirs(path, exist_ok=True)
    dirs = []
    for di, (did, files) in enumerate(s['dirs']):
        d = os.path.join(path, did)
        os.makedirs(d, exist_ok=True)
        # the SAME directory under another spelling (non-canonical path, symbolic link, relative to the working
        # directory of the worker): inclusion must not depend on how a directory is spelled
        sp = s.get('dir_spelling', ['canon'] * len(s['dirs']))[di]
        if sp == 'dot':
            dirs.append(os.path.join(path, '.', did, '.'))
        elif sp == 'dotdot':
            dirs.append(os.path.join(path, did, '..', did))
        elif sp == 'slashes':
            dirs.append(path + '//' + did + '/')
        elif sp == 'symlink':
            ln = os.path.join(path, 'ln_' + did)
            if not os.path.lexists(ln):
                os.symlink(did, ln)
            dirs.append(ln)
        elif sp == 'relative':
            dirs.append(os.path.join('REL', did))     # resolved by the worker: chdir(path)
        else:
            dirs.append(d)
        for fn, tree in files.items():
            fp = os.path.join(d, fn)
            os.makedirs(os.path.dirname(fp), exist_ok=True)
            with open(fp, 'w') as f:
                f.write(s.get('raw_files', {}).get((did, fn)) or dump(tree))
    with open(os.path.join(path, 'config.yaml'), 'w') as f:
        f.write(s.get('raw_root') or dump(s['root'], v3root=s['major'] == 3))
    for tag in ('flat_doc', 'flat_impl'):
        if s.get(tag) is not None:
            with open(os.path.join(path, tag + '.yaml'), 'w') as f:
                f.write(dump(s[tag], v3root=s['major'] == 3))
    return dirs


def real_effective(args):
    """Worker (separate process): returns ('ok', yaml text) | ('cfgerr', msg) | ('crash', msg)."""
    cfg, dirs = args
    import bt  # noqa: F401  (forces /repo)
    import barectf
    if any(d.startswith('REL' + os.sep) for d in dirs):
        os.chdir(os.path.dirname(cfg))
        dirs = [d[4:] if d.startswith('REL' + os.sep) else d for d in dirs]
    # YAML documents loaded by the front end during the call: the scenarios are shallow and made of a handful of files,
    # so hundreds of loads mean recursion without bound (an inclusion / alias cycle that is not detected) even when the
    # front end's recursion-limit guard reports it as a configuration error in the end
    import yaml
    loads = [0]
    yaml_load = yaml.load

    def counting_load(*a, **k):
        loads[0] += 1
        return yaml_load(*a, **k)
    yaml.load = counting_load
    try:
        with open(cfg) as f:
            r = 'ok', barectf.effective_configuration_file(f, True, dirs)
    except barectf._ConfigurationParseError as exc:
        r = 'cfgerr', str(exc)[-400:]
    except Exception as exc:  # noqa
        r = 'crash', '%s: %s' % (type(exc).__name__, str(exc)[-300:])
    finally:
        yaml.load = yaml_load
    if r[0] != 'crash' and (loads[0] > 250 or (r[0] == 'cfgerr' and 'too many nested levels' in r[1])):
        return 'crash', 'UnboundedRecursion: %d YAML documents loaded for a shallow scenario; outcome %s %s' % (
            loads[0], r[0], r[1][-200:] if r[0] == 'cfgerr' else '')
    return r


def run(ctx):
    quick = ctx.tier == 'quick'
    plan = []
    for major in (3, 2):
        k = 1.0 if major == 3 else 0.5
        plan += [(major, 'include')] * int(ctx.pick(70, 1300) * k)
        plan += [(major, 'cycle')] * int(ctx.pick(10, 100) * k)
        plan += [(major, 'missing')] * int(ctx.pick(2, 20) * k)
        plan += [(major, 'alias:chain')] * int(ctx.pick(30, 500) * k)
        plan += [(major, 'alias:cycle')] * int(ctx.pick(8, 100) * k)
        plan += [(major, 'alias:undefined')] * int(ctx.pick(4, 50) * k)
        plan += [(major, 'alias:name-over-object')] * int(ctx.pick(6, 100) * k)
    gens = {3: ScenGen(ctx.rng, 3), 2: ScenGen(ctx.rng, 2)}
    pkg = {3: pkg_files(3), 2: pkg_files(2)}
    scens = [hand_anchor_scenario(), hand_inherit_scenario(), hand_include_examples(), hand_crash_scenario()]
    for major, what in plan:
        g = gens[major]
        if what == 'include':
            s = g.include_scenario()
        elif what == 'cycle':
            s = g.cycle_scenario()
        elif what == 'missing':
            s = g.missing_scenario()
        else:
            s = g.alias_scenario(what.split(':')[1])
        scens.append(s)
    # documented expectation (and the implementation-like reading) for every scenario
    stats = collections.Counter()
    reported = set()
    jobs = []
    for i, s in enumerate(scens):
        dirs_spec = list(s['dirs']) + [('<package>', pkg[s['major']])]
        for tag, cls in (('flat_doc', Doc), ('flat_impl', ImplLike)):
            m = cls(s['major'], dirs_spec)
            try:
                s[tag] = m.flatten(s['root'])
                s[tag + '_err'] = None
            except SpecError as exc:
                s[tag], s[tag + '_err'] = None, str(exc)
            except T.Undefined as exc:
                s[tag], s[tag + '_err'] = None, 'undefined:' + str(exc)
            if tag == 'flat_doc':
                s['opened'] = list(m.opened)
        path = os.path.join(ctx.scratch, 'e2e', '%04d' % i)
        if 'dir_spelling' not in s:
            s['dir_spelling'] = [ctx.rng.choice(['canon', 'canon', 'dot', 'dotdot', 'slashes', 'symlink', 'relative']) for _ in s['dirs']]
            stats['dir-spelling:' + '+'.join(sorted(set(s['dir_spelling'])))] += 1
        dirs = write_scenario(s, path)
        s['path'] = path
        jobs.append((os.path.join(path, 'config.yaml'), dirs))
        for tag in ('flat_doc', 'flat_impl'):
            if s[tag] is not None:
                jobs.append((os.path.join(path, tag + '.yaml'), []))
    with ProcessPoolExecutor(max_workers=14) as ex:
        outs = list(ex.map(real_effective, jobs, chunksize=4))
    res = dict(zip([j[0] for j in jobs], outs))
    n_ok = n_rej = n_err_expected = 0
    samples = []
    for i, s in enumerate(scens):
        kind = s['kind']
        stats['scenario:%d:%s' % (s['major'], kind)] += 1
        real = res[os.path.join(s['path'], 'config.yaml')]
        replay = {'scenario': kind, 'major_version': s['major'],
                  'config.yaml': s.get('raw_root') or dump(s['root'], v3root=s['major'] == 3),
                  'inclusion_directories': [d for d, _ in s['dirs']], 'directory_spelling': s.get('dir_spelling'),
                  'files': {'%s/%s' % (d, fn): (s.get('raw_files', {}).get((d, fn)) or dump(t)) for d, fs in s['dirs'] for fn, t in fs.items()}}
        if real[0] == 'crash':
            stats['real:crash'] += 1
            key = s.get('finding_key') if s.get('expect') == 'crash-witness' else 'e2e-crash:' + real[1].split(':')[0]
            if key not in reported:
                reported.add(key)
                ctx.finding(key, (s.get('finding_what') or 'front end raised a non-configuration exception on a C12 scenario') + ': ' + real[1], replay)
            continue
        if s.get('expect') == 'crash-witness':
            # the model's crash outcome did not reproduce: the model is wrong (or /repo was fixed)
            if real[0] != 'cfgerr':
                ctx.violation('an included object with an empty mapping as members item is accepted by the front end', replay)
            stats['crash-witness:now-a-configuration-error'] += 1
            continue
        if s['flat_doc'] is None and s['flat_doc_err'].startswith('undefined'):
            stats['documented-result-undefined'] += 1      # malformed `members`: the rules say nothing
            continue
        if s['flat_doc'] is None:
            # the documentation says: configuration error
            n_err_expected += 1
            stats['expected-error:' + s['flat_doc_err'].split(':')[0]] += 1
            stats['expected-error-in:%s:%s' % (kind, s['flat_doc_err'])] += 1
            if real[0] != 'cfgerr':
                ctx.violation('%s (%s) must be a configuration error but the configuration was accepted' % (kind, s['flat_doc_err']), replay)
            continue
        if s['expect'] == 'error':
            ctx.corr_broken.append('scenario generator: %s expected an error but the documented reading gives a result' % kind)
        doc = res[os.path.join(s['path'], 'flat_doc.yaml')]
        impl = res.get(os.path.join(s['path'], 'flat_impl.yaml'))
        for d, fn in s['opened']:
            stats['opened-from:' + ('package' if d == '<package>' else 'user-dir')] += 1
        stats['files-opened:%d' % min(len(s['opened']), 12)] += 1
        agree_doc = outcome_equal(real, doc)
        if agree_doc is True:
            if real[0] == 'ok':
                n_ok += 1
                if len(samples) < 3 and kind == 'include' and len(s['opened']) > 3:
                    samples.append({'scenario': kind, 'major': s['major'], 'files_opened': ['%s/%s' % o for o in s['opened']][:8]})
            else:
                n_rej += 1
            stats['agree:%s' % real[0]] += 1
            continue
        # deviation from the documented result: classify
        replay.update({'effective_real': real[1][-3000:], 'effective_documented': doc[1][-3000:], 'difference': agree_doc})
        if s.get('finding_key'):
            stats['finding:' + s['finding_key']] += 1
            if s['finding_key'] not in reported:
                reported.add(s['finding_key'])
                ctx.finding(s['finding_key'], s['finding_what'] + ' [' + str(agree_doc)[:160] + ']', replay)
        elif impl is not None and outcome_equal(real, impl) is True and kind.startswith('alias'):
            key = 'inherit-alias-name-merged-not-replaced'
            stats['finding:' + key] += 1
            if key not in reported:      # one replay per key is enough; the count is in the evidence
                reported.add(key)
                ctx.finding(key,
                            'field type inheritance: an alias name (string) in the inheriting object does not REPLACE the base property as '
                            'patching-rules-table.adoc says; its expansion is merged into the base value [' + str(agree_doc)[:160] + ']', replay)
        else:
            stats['violation:unclassified'] += 1
            if stats['violation:unclassified'] <= 5:       # the first ones carry replays, the rest are counted
                ctx.violation('effective configuration differs from the documented inclusion/inheritance result (%s, barectf %d): %s' % (kind, s['major'], str(agree_doc)[:200]), replay)
        stats['deviation:' + kind] += 1
    nstage = stage_corr(ctx, scens, pkg)
    ctx.cov.update({
        'e2e_scenarios': len(scens),
        'e2e_accepted_and_equal': n_ok,
        'e2e_both_rejected': n_rej,
        'e2e_expected_configuration_errors': n_err_expected,
        'e2e_distribution': {k: stats[k] for k in sorted(stats)},
        'e2e_generator_distribution': {str(m): {k: g.stats[k] for k in sorted(g.stats)} for m, g in gens.items()},
        'e2e_rule': 'each scenario: the configuration with $include / aliases / $inherit and its flattening by the documented rules are '
                    'both loaded with the real effective_configuration_file(with_package_inclusion_directory=True, inclusion_directories=...); '
                    'the two effective trees (key order included) must be equal, or both rejected; documented errors must raise _ConfigurationParseError',
    })
    return len(scens) + nstage, n_ok + n_err_expected, samples


def outcome_equal(a, b):
    """True, or a short description of the difference."""
    if a[0] != b[0]:
        return 'real: %s %s / documented: %s %s' % (a[0], a[1][-150:] if a[0] != 'ok' else '', b[0], b[1][-150:] if b[0] != 'ok' else '')
    if a[0] != 'ok':
        return True
    ta, tb = load(a[1]), load(b[1])
    if T.same(ta, tb):
        return True
    return 'trees differ at ' + first_diff(ta, tb)


def first_diff(a, b, path=''):
    if type(a) is not type(b):
        return '%s: %r vs %r' % (path, T.to_plain(a), T.to_plain(b))
    if type(a) is OD:
        if list(a) != list(b):
            return '%s: keys %r vs %r' % (path, list(a), list(b))
        for k in a:
            if not T.same(a[k], b[k]):
                return first_diff(a[k], b[k], path + '/' + str(k))
    if type(a) is list:
        if len(a) != len(b):
            return '%s: %d vs %d items' % (path, len(a), len(b))
        for i, (x, y) in enumerate(zip(a, b)):
            if not T.same(x, y):
                return first_diff(x, y, '%s[%d]' % (path, i))
    return '%s: %r vs %r' % (path, a, b)


# ------------------------------------------------------------------ hand-written scenarios

def hand_include_examples():
    """The four examples of include.adoc in one configuration."""
    root = load('''
trace:
  type:
    $include: [stdint.yaml, stdmisc.yaml, tt-base.yaml]
    native-byte-order: le
    $field-type-aliases:
      my-enum:
        size: 16
        mappings:
          COMPOSE:
            - -22
    clock-types:
      clk:
        $include: [clk-base.yaml]
        frequency: 8000000
        origin-is-unix-epoch: false
    data-stream-types:
      ds:
        $is-default: true
        event-record-types:
          ev:
            $include: [ert-base.yaml]
            log-level: 3
            specific-context-field-type:
              class: structure
              members:
                - src_ip_addr:
                    field-type:
                      class: static-array
                      length: 4
                      element-field-type: uint8
                - user_id: int8
            payload-field-type:
              class: structure
              members:
                - e: my-enum
''')
    files = OD([
        ('tt-base.yaml', load('$field-type-aliases:\n  my-enum:\n    class: signed-enumeration\n    mappings:\n      COMPOSE:\n        - 56\n        - [100, 299]\n      DIRTY: [0]\n')),
        ('clk-base.yaml', load('frequency: 1000000\noffset:\n  seconds: 1992839\n')),
        ('ert-base.yaml', load('log-level: 4\nspecific-context-field-type:\n  class: structure\n  members:\n    - msg: string\n    - user_id: uint16\n')),
    ])
    return {'kind': 'include-doc-examples', 'major': 3, 'root': root, 'dirs': [('d0', files)], 'expect': 'ok?'}


def hand_inherit_scenario():
    """ft-obj.adoc, example "Add to nested mapping property", with a base member whose alias has a
    property the overriding alias does not have.  The table says: A's property is a string ->
    replace B's property."""
    root = load('''
trace:
  type:
    $include: [stdint.yaml]
    native-byte-order: le
    $field-type-aliases:
      hex16:
        $inherit: uint16
        preferred-display-base: hex
      base:
        class: structure
        members:
          - msg: uint32
          - user_id: hex16
      derived:
        $inherit: base
        members:
          - user_id: int8
    data-stream-types:
      ds:
        $is-default: true
        event-record-types:
          ev:
            payload-field-type: derived
''')
    return {'kind': 'alias:doc-example-name-over-name', 'major': 3, 'root': root, 'dirs': [('d0', OD())], 'expect': 'ok?',
            'finding_key': 'inherit-alias-name-merged-not-replaced',
            'finding_what': 'field type inheritance: `- user_id: int8` over a base member `- user_id: hex16` (hex16 = uint16 + '
                            'preferred-display-base: hex) keeps preferred-display-base: the alias name does not replace the base '
                            'property as patching-rules-table.adoc (string: replace) and the example of ft-obj.adoc say'}


def hand_anchor_scenario():
    """An included document that uses a YAML anchor/alias denotes a tree with two equal subtrees;
    patching one property must not change the other."""
    root = load('''
trace:
  type:
    $include: [stdint.yaml, tt-anchor.yaml]
    native-byte-order: le
    clock-types:
      c1:
        offset: {cycles: 7}
    data-stream-types:
      ds:
        $is-default: true
        event-record-types:
          ev:
            payload-field-type:
              class: structure
              members:
                - a: uint8
''')
    raw = 'clock-types:\n  c1:\n    frequency: 10\n    offset: &off\n      seconds: 5\n  c2:\n    frequency: 20\n    offset: *off\n'
    files = OD([('tt-anchor.yaml', load(raw))])
    return {'kind': 'include-yaml-anchor', 'major': 3, 'root': root, 'dirs': [('d0', files)], 'expect': 'ok?',
            'raw_files': {('d0', 'tt-anchor.yaml'): raw},
            'finding_key': 'include-yaml-anchor-shared-node-patched',
            'finding_what': 'inclusion: the included file gives clock types c1 and c2 the same offset through a YAML anchor/alias; the '
                            'including object patches only c1.offset, yet c2.offset changes too (the in-place update mutates the shared node)'}


# ------------------------------------------------------------------ stage-level correspondence
# The REAL parser methods are run stage by stage (_process_config_includes, then
# _normalize_struct_ft_member_nodes / _expand_ft_aliases, then _apply_fts_inheritance) on a parser
# object whose constructor did not run `_parse`; the tree after each stage is compared with the Coq
# models Include.process, Alias.resolve and Inherit.apply_inherit (vm_compute) and with the Python
# readings above.

def real_stages(args):
    """Worker: returns {'include': ('ok', tree)|('cfgerr', msg)|('crash', msg), 'before': tree|None,
    'alias': ..., 'inherit': ...} for the configuration at cfg."""
    cfg, dirs, major = args
    import bt  # noqa: F401
    import barectf.config_parse_common as cpc
    import barectf.config_parse_v2 as p2
    import barectf.config_parse_v3 as p3
    res = {}

    def stage(name, fn):
        try:
            fn()
            return True
        except cpc._ConfigurationParseError as exc:
            res[name] = ('cfgerr', str(exc)[-300:])
        except Exception as exc:  # noqa
            res[name] = ('crash', '%s: %s' % (type(exc).__name__, str(exc)[-200:]))
        return False

    with open(cfg) as f:
        root = cpc._yaml_load(f)
        cls = p3._Parser if major == 3 else p2._Parser
        p = object.__new__(cls)
        cpc._Parser.__init__(p, f, root, True, list(dirs), False, major)
    if major == 3:
        top = lambda: p.config_node['trace']                       # noqa: E731
        holder = lambda: p.config_node['trace']['type']            # noqa: E731
        akey, schema = '$field-type-aliases', 'config/3/config-pre-field-type-expansion'
        whole = lambda: p.config_node                              # noqa: E731
    else:
        top = lambda: p._root_node['metadata']                     # noqa: E731
        holder = top
        akey, schema = 'type-aliases', 'config/2/config-pre-field-type-expansion'
        whole = lambda: p._root_node                               # noqa: E731
        if not stage('include', lambda: p._schema_validator.validate(p._root_node, 'config/2/config-min')):
            return res
    if not stage('include', p._process_config_includes):
        return res
    res['include'] = ('ok', copy.deepcopy(top()))
    if not stage('alias', lambda: p._schema_validator.validate(whole(), schema)):
        return res
    if holder().get(akey) is None:
        return res
    if major == 3:
        if not stage('alias', p._normalize_struct_ft_member_nodes):
            return res
    res['before'] = copy.deepcopy(whole())
    if not stage('alias', p._expand_ft_aliases):
        return res
    res['alias'] = ('ok', copy.deepcopy(whole()))
    if not stage('inherit', p._apply_fts_inheritance):
        return res
    res['inherit'] = ('ok', copy.deepcopy(whole()))
    return res


def ft_paths(root, major):
    """Paths of the top-level field type positions the parser visits (same order)."""
    res = []
    if major == 3:
        tt = root['trace']['type']
        base = ('trace', 'type')
        feats = tt.get('$features')
        if feats is not None:
            for k in ('magic-field-type', 'uuid-field-type', 'data-stream-type-id-field-type'):
                res.append(base + ('$features', k))
        for dn, dst in tt['data-stream-types'].items():
            b = base + ('data-stream-types', dn)
            feats = dst.get('$features')
            if feats is not None:
                if feats.get('packet') is not None:
                    for k in ('total-size-field-type', 'content-size-field-type', 'beginning-timestamp-field-type', 'end-timestamp-field-type',
                              'discarded-event-records-counter-snapshot-field-type', 'sequence-number-field-type'):
                        res.append(b + ('$features', 'packet', k))
                if feats.get('event-record') is not None:
                    for k in ('type-id-field-type', 'timestamp-field-type'):
                        res.append(b + ('$features', 'event-record', k))
            ems = dst.get('packet-context-field-type-extra-members')
            if ems is not None:
                for i, m in enumerate(ems):
                    res.append(b + ('packet-context-field-type-extra-members', i, list(m)[0], 'field-type'))
            res.append(b + ('event-record-common-context-field-type',))
            for en in dst['event-record-types']:
                res.append(b + ('event-record-types', en, 'specific-context-field-type'))
                res.append(b + ('event-record-types', en, 'payload-field-type'))
    else:
        meta = root['metadata']
        res.append(('metadata', 'trace', 'packet-header-type'))
        for dn, dst in meta['streams'].items():
            b = ('metadata', 'streams', dn)
            for k in ('packet-context-type', 'event-header-type', 'event-context-type'):
                res.append(b + (k,))
            for en in dst['events']:
                res.append(b + ('events', en, 'context-type'))
                res.append(b + ('events', en, 'payload-type'))
    return res


MISSING = object()


def get_path(root, path):
    cur = root
    for k in path:
        if type(cur) is OD:
            if k not in cur:
                return MISSING
            cur = cur[k]
        elif type(cur) is list:
            cur = cur[k]
        else:
            return MISSING
    return cur


def coq_list(items):
    return '[' + '; '.join(items) + ']'


def stage_corr(ctx, scens, pkg):
    import re
    from common import run_cases_v
    jobs = [(os.path.join(s['path'], 'config.yaml'), [os.path.join(s['path'], d) for d, _ in s['dirs']], s['major']) for s in scens]
    with ProcessPoolExecutor(max_workers=14) as ex:
        outs = list(ex.map(real_stages, jobs, chunksize=4))
    stats = collections.Counter()
    inc_cases, alias_cases, inh_cases = [], [], []
    for s, out in zip(scens, outs):
        major = s['major']
        v3 = major == 3
        top = 'trace' if v3 else 'metadata'
        dirs_spec = list(s['dirs']) + [('<package>', pkg[major])]
        # ---- include stage: real vs documented reading (direct tree comparison) and Coq model
        inc = out.get('include')
        if inc is None:
            continue
        if inc[0] == 'crash':
            stats['include:real-crash'] += 1
            continue
        doc = Doc(major, dirs_spec)
        try:
            exp = doc.include(s['root'][top], top)
        except SpecError as exc:
            exp = None
        except T.Undefined:
            continue
        real_tree = inc[1] if inc[0] == 'ok' else None
        if s.get('raw_files') is None:       # (the anchor scenario is not a tree for the models)
            if (exp is None) != (real_tree is None) or (exp is not None and not T.same(exp, real_tree)):
                if exp is None or real_tree is None:
                    # a schema rejection of the pre-include stage is outside the inclusion rules
                    stats['include:doc-vs-real-outcome-differs'] += 1
                    if exp is None:
                        ctx.violation('inclusion stage accepted what the documentation makes a configuration error (%s)' % s['kind'],
                                      {'scenario': s['kind'], 'config.yaml': dump(s['root'], v3root=v3)})
                else:
                    stats['include:stage-tree-differs'] += 1
                    if stats['include:stage-tree-differs'] <= 3:
                      ctx.violation('tree after the inclusion stage differs from the documented result (%s, barectf %d): %s' % (s['kind'], major, first_diff(real_tree, exp)),
                                  {'scenario': s['kind'], 'major_version': major, 'config.yaml': dump(s['root'], v3root=v3),
                                   'files': {'%s/%s' % (d, fn): dump(t) for d, fs in s['dirs'] for fn, t in fs.items()},
                                   'real': dump(real_tree), 'documented': dump(exp)})
            stats['include:compared'] += 1
            user_fs = [('%s/%s' % (d, fn), t) for d, fs in s['dirs'] for fn, t in fs.items()]
            inc_cases.append((major, user_fs, [d for d, _ in s['dirs']], s['root'][top], real_tree))
        # ---- alias and inheritance stages, per field type position
        before = out.get('before')
        if before is None:
            continue
        holder = before['trace']['type'] if v3 else before['metadata']
        aliases = holder['$field-type-aliases' if v3 else 'type-aliases']
        a_out, i_out = out.get('alias'), out.get('inherit')
        impl = ImplLike(major, dirs_spec)
        for path in ft_paths(before, major):
            v0 = get_path(before, path)
            if v0 is MISSING or (v3 and type(v0) not in (OD, str)) or v0 is None:
                continue
            try:
                e1 = impl.expand(aliases, v0, ())
            except SpecError:
                e1 = None
            if a_out is None or a_out[0] != 'ok':
                # the real stage raised: the first failing position (by the Python reading) must
                # fail in the Coq model too
                if e1 is None and (a_out is None or a_out[0] == 'cfgerr'):
                    alias_cases.append((major, aliases, v0, None))
                    stats['alias:error-position'] += 1
                    break
                continue
            v1 = get_path(a_out[1], path)
            if e1 is None or not T.same(e1, v1):
                ctx.corr_broken.append('python reading ImplLike.expand differs from the real _expand_ft_aliases at %s' % '/'.join(map(str, path)))
            alias_cases.append((major, aliases, v0, v1))
            stats['alias:position'] += 1
            if i_out is None:
                continue
            if type(v1) is not OD:
                continue
            if i_out[0] == 'ok':
                v2 = get_path(i_out[1], path)
                inh_cases.append((major, v1, v2))
                stats['inherit:position'] += 1
                try:
                    e2 = impl.apply(copy.deepcopy(v1))
                except (SpecError, T.Undefined):
                    e2 = None
                if e2 is None or not T.same(e2, v2):
                    ctx.corr_broken.append('python reading ImplLike.apply differs from the real _apply_fts_inheritance at %s' % '/'.join(map(str, path)))
    # ---- Coq evaluation
    head = ['From Coq Require Import List String ZArith Bool.', 'Import ListNotations.',
            'From BT.Front Require Import Yaml YamlRes Patch Include Alias Inherit.', 'Open Scope string_scope.', 'Open Scope list_scope.']
    pkg_defs = ['Definition pkg%d : entries := %s.' % (m, coq_list('(%s, %s)' % (T.coq_str('<package>/' + fn), T.to_coq(t)) for fn, t in pkg[m].items()))
                for m in (2, 3)]
    files = []
    for i in range(0, len(inc_cases), 20):
        rows = []
        for major, user_fs, dirs, node, exp in inc_cases[i:i + 20]:
            rows.append('(%s, %s ++ pkg%d, %s, %s, %s, %s)' % (
                'true' if major == 3 else 'false',
                coq_list('(%s, %s)' % (T.coq_str(pth), T.to_coq(t)) for pth, t in user_fs), major,
                coq_list([T.coq_str(d) for d in dirs] + [T.coq_str('<package>')]),
                'KTrace' if major == 3 else 'KMeta', T.to_coq(node),
                'None' if exp is None else '(Some %s)' % T.to_coq(exp)))
        files.append(('inc', i, 20, '\n'.join(head + pkg_defs + ['Definition cases : list include_case := [', ';\n'.join(rows), '].',
                                                                 'Eval vm_compute in (failing include_case_ok 0%nat cases).']) + '\n'))
    # alias tables are shared by the positions of one scenario: define each table once per shard
    shard, shards, tabs = [], [], {}
    for major, aliases, v0, v1 in alias_cases:
        key = id(aliases)
        if key not in tabs and len(tabs) >= 12:
            shards.append((shard, tabs))
            shard, tabs = [], {}
        if key not in tabs:
            tabs[key] = ('al%d' % len(tabs), aliases)
        shard.append((major, tabs[key][0], v0, v1))
    if shard:
        shards.append((shard, tabs))
    off = 0
    for shard, tabs in shards:
        defs = ['Definition %s : entries := %s.' % (nm, coq_list('(%s, %s)' % (T.coq_str(k), T.to_coq(v)) for k, v in al.items()))
                for nm, al in tabs.values()]
        rows = ['(%s, %s, %s, %s)' % ('true' if major == 3 else 'false', nm, T.to_coq(v0), 'None' if v1 is None else '(Some %s)' % T.to_coq(v1))
                for major, nm, v0, v1 in shard]
        files.append(('alias', off, len(shard), '\n'.join(head + defs + ['Definition cases : list alias_case := [', ';\n'.join(rows), '].',
                                                                         'Eval vm_compute in (failing alias_case_ok 0%nat cases).']) + '\n'))
        off += len(shard)
    for i in range(0, len(inh_cases), 300):
        rows = ['(%s, %s, %s)' % ('true' if major == 3 else 'false', T.to_coq(v1), 'None' if v2 is None else '(Some %s)' % T.to_coq(v2))
                for major, v1, v2 in inh_cases[i:i + 300]]
        files.append(('inh', i, 300, '\n'.join(head + ['Definition cases : list inherit_case := [', ';\n'.join(rows), '].',
                                                       'Eval vm_compute in (failing inherit_case_ok 0%nat cases).']) + '\n'))
    from concurrent.futures import ThreadPoolExecutor

    def run_file(f):
        return run_cases_v('c12_%s_%d' % (f[0], f[1]), f[3], ctx.scratch, timeout=1500)

    bad = collections.Counter()
    with ThreadPoolExecutor(max_workers=14) as ex:
        for f, (rc, o) in zip(files, ex.map(run_file, files)):
            m = re.search(r'=\s*\[(.*?)\]\s*:\s*list nat', o, re.S)
            if rc != 0 or not m:
                ctx.corr_broken.append('C12 %s model evaluation failed (shard %d): %s' % (f[0], f[1], o[-300:]))
                continue
            idx = [int(t) for t in m.group(1).replace('\n', ' ').split(';') if t.strip()]
            if idx:
                bad[f[0]] += len(idx)
                src = {'inc': inc_cases, 'alias': alias_cases, 'inh': inh_cases}[f[0]]
                c = src[f[1] + idx[0]]
                ctx.notes.append('first disagreeing %s case: %s' % (f[0], repr([T.to_plain(x) if type(x) in (OD, list) else x for x in c])[:1500]))
    for k, n in bad.items():
        ctx.corr_broken.append('Coq model %s disagrees with the real parser stage on %d cases' %
                               ({'inc': 'Include.process', 'alias': 'Alias.resolve', 'inh': 'Inherit.apply_inherit'}[k], n))
    ctx.cov.update({
        'stage_include_cases_coq': len(inc_cases), 'stage_alias_positions_coq': len(alias_cases), 'stage_inherit_positions_coq': len(inh_cases),
        'stage_coq_disagreements': dict(bad), 'stage_distribution': {k: stats[k] for k in sorted(stats)},
    })
    return len(inc_cases) + len(alias_cases) + len(inh_cases)


def hand_crash_scenario():
    """Replay of Patch.update_crash_witness (PatchProofs.v) on the real front end: an included event
    record type whose structure has an empty mapping as `members` item, patched by a `members` list."""
    root = load("""
trace:
  type:
    $include: [stdint.yaml]
    native-byte-order: le
    data-stream-types:
      ds:
        $is-default: true
        event-record-types:
          ev:
            $include: [ev.yaml]
            payload-field-type:
              class: struct
              members:
                - a: uint8
""")
    files = OD([('ev.yaml', load('payload-field-type:\n  class: struct\n  members:\n    - {}\n'))])
    return {'kind': 'include-empty-member-item', 'major': 3, 'root': root, 'dirs': [('d0', files)], 'expect': 'crash-witness',
            'finding_key': 'members-empty-base-item-indexerror',
            'finding_what': 'inclusion: an included structure field type with an empty mapping as `members` item makes the `members` '
                            'merge raise IndexError (list(base_item)[0]) instead of a configuration error'}
