"""Shared helpers of c09_oracle / c10_impl: valid base documents (barectf 3 and barectf 2
dialects, multi-file: main document + inclusion files), YAML dumping, typed tree walkers that
enumerate every position where a constrained object occurs, and load / classify helpers that
run the REAL front end of /repo.

A *document* is a dict {file name: tree}; the key 'config.yaml' is the root file, every other
key is an inclusion file (its object kind is recorded in Base.kinds).  A mutant only rewrites
the files it changes into its own directory, which is put in front of the base inclusion
directory, so base inclusion files are shared and read-only.
"""
import copy
import hashlib
import os
import re
import signal
import traceback

import yaml

MAIN = 'config.yaml'
V3_HEADER = '--- !<tag:barectf.org,2020/3/config>\n'
UUID_A = '79e49040-21b5-42d4-a873-677261696e65'
UUID_B = 'a6c5e1f0-0b7d-4c63-9a3e-2d1f0c9b8a77'
from common import REPO as _REPO   # honours VERIF_REPO
REPO_BARECTF = os.path.join(os.path.realpath(_REPO), 'barectf')


# ------------------------------------------------------------------ YAML text

class _Dumper(yaml.SafeDumper):
    def ignore_aliases(self, data):
        return True


def dump_tree(tree):
    return yaml.dump(tree, Dumper=_Dumper, sort_keys=False, default_flow_style=False, width=100)


def dump_file(name, tree, dialect):
    """Text of one file of a document.  Only the root file of a barectf 3 document is tagged."""
    body = dump_tree(tree)
    if name == MAIN and dialect == 3:
        if isinstance(tree, (dict, list)) and tree:
            return V3_HEADER + body
        # scalars / empty collections: keep the tag in front of the flow node
        return V3_HEADER.rstrip('\n') + ' ' + body
    return body


class _EffLoader(yaml.SafeLoader):
    pass


_EffLoader.add_constructor('tag:barectf.org,2020/3/config',
                           lambda loader, node: loader.construct_mapping(node, deep=True))


def load_effective_text(text):
    return yaml.load(text, Loader=_EffLoader)


# ------------------------------------------------------------------ bases

class Base:
    def __init__(self, name, dialect, doc, kinds):
        self.name, self.dialect, self.doc, self.kinds = name, dialect, doc, kinds
        self.incdir = None

    def write(self, root):
        """Write all files under root/<name>; returns the directory."""
        d = os.path.join(root, self.name)
        os.makedirs(d, exist_ok=True)
        for fn, tree in self.doc.items():
            with open(os.path.join(d, fn), 'w') as f:
                f.write(dump_file(fn, tree, self.dialect))
        self.incdir = d
        return d


def _u(size, cls='unsigned-integer', **kw):
    d = {'class': cls, 'size': size}
    d.update(kw)
    return d


def _m(name, ft):
    """v3 structure member entry in the long form."""
    return {name: {'field-type': ft}}


def v3_full():
    """Rich barectf 3 document: every object kind at every location kind."""
    aliases = {
        'u16': _u(16, 'uint', alignment=16),
        'u16hex': {'$inherit': 'u16', 'preferred-display-base': 'hex'},
        'u16hex8': {'$inherit': 'u16hex', 'alignment': 8},
        'word': 'u16',
        'word2': 'word',
        'i12': {'class': 'signed-integer', 'size': 12, 'alignment': 4, 'preferred-display-base': 'oct'},
        'myenum': {'class': 'uenum', 'size': 8, 'mappings': {'A': [1, [3, 5]], 'B': [7]}},
        'myenum_bin': {'$inherit': 'myenum', 'preferred-display-base': 'binary'},
        'senum16': {'class': 'signed-enumeration', 'size': 16, 'alignment': 16,
                    'mappings': {'NEG': [[-5, -1]], 'ZERO': [0], 'POS': [[1, 100], 200]}},
        'flt': {'class': 'real', 'size': 32},
        'dbl': {'class': 'real', 'size': 64, 'alignment': 64},
        'dbl8': {'$inherit': 'dbl', 'alignment': 8},
        's': {'class': 'string'},
        'arr4': {'class': 'static-array', 'length': 4, 'element-field-type': 'uint8'},
        'arr2x3': {'class': 'static-array', 'length': 2,
                   'element-field-type': {'class': 'static-array', 'length': 3, 'element-field-type': 'word'}},
        'arr_lit': {'class': 'static-array', 'length': 3, 'element-field-type': _u(24, 'uint', alignment=8)},
        'dyn16': {'class': 'dynamic-array', 'element-field-type': 'u16'},
        'dyn_lit': {'class': 'dynamic-array', 'element-field-type': {'class': 'sint', 'size': 32, 'alignment': 32}},
        'dyn_arr4': {'class': 'dynamic-array', 'element-field-type': 'arr4'},
        'dyn_arr_lit': {'class': 'dynamic-array',
                        'element-field-type': {'class': 'static-array', 'length': 2,
                                               'element-field-type': {'class': 'real', 'size': 64}}},
        'magic_t': _u(32, 'uint', alignment=32),
        'uuid_t': {'class': 'static-array', 'length': 16, 'element-field-type': _u(8, 'uint', alignment=8)},
        'id8': _u(8, 'unsigned-int'),
        'u64': _u(64, 'uint', alignment=64),
        'u64hex': {'$inherit': 'u64', 'preferred-display-base': 'hexadecimal'},
        'pl_base': {'class': 'struct', 'minimum-alignment': 8,
                    'members': [{'x': 'u16'}, _m('y', 'flt'), _m('bits', _u(3, 'uint'))]},
        'ctx_t': {'class': 'structure', 'members': [{'pid': 'uint32'}, {'prio': 'i12'}, _m('nm', {'class': 'str'})]},
    }
    payload_all = {
        'class': 'structure', 'minimum-alignment': 16,
        'members': [
            _m('u', _u(9, 'uint')),
            _m('i', {'class': 'sint', 'size': 64, 'alignment': 64, 'preferred-display-base': 'dec'}),
            {'al': 'u16hex8'},
            {'alh': 'u16hex'},
            {'w': 'word2'},
            _m('e', {'class': 'unsigned-enumeration', 'size': 32, 'mappings': {'X': [0], 'Y': [[10, 20], 30]}}),
            {'e2': 'myenum_bin'},
            {'e3': 'senum16'},
            _m('r', {'class': 'real', 'size': 64, 'alignment': 32}),
            {'r2': 'dbl8'},
            _m('st', {'class': 'string'}),
            _m('sa', {'class': 'static-array', 'length': 5, 'element-field-type': _u(16, 'uint', alignment=16)}),
            _m('sa_str', {'class': 'static-array', 'length': 2, 'element-field-type': 's'}),
            _m('sa2', {'class': 'static-array', 'length': 2,
                       'element-field-type': {'class': 'static-array', 'length': 3,
                                              'element-field-type': {'class': 'real', 'size': 32}}}),
            {'sa3': 'arr2x3'},
            {'sa4': 'arr_lit'},
            _m('da', {'class': 'dynamic-array', 'element-field-type': _u(8, 'uint')}),
            _m('da_al', {'class': 'dynamic-array', 'element-field-type': 'myenum'}),
            _m('da_sa', {'class': 'dynamic-array',
                         'element-field-type': {'class': 'static-array', 'length': 4, 'element-field-type': 'uint8'}}),
            {'da2': 'dyn16'}, {'da3': 'dyn_lit'}, {'da4': 'dyn_arr4'}, {'da5': 'dyn_arr_lit'},
            _m('ov', {'$inherit': 'i12', 'preferred-display-base': 'hex'}),
        ]}
    main = {
        'options': {'code-generation': {
            'prefix': {'identifier': 'myp_', 'file-name': 'myp'},
            'header': {'identifier-prefix-definition': True,
                       'default-data-stream-type-name-definition': True}}},
        'trace': {
            '$include': ['v3-trace-inc.yaml'],
            'environment': {'my_env': 'hello', 'other': 42},
            'type': {
                '$include': ['v3-tt-inc.yaml'],
                'native-byte-order': 'little-endian',
                'uuid': UUID_A,
                '$field-type-aliases': aliases,
                '$log-level-aliases': {'CRIT2': 2, 'DBG': 14},
                '$features': {
                    'magic-field-type': 'magic_t',
                    'uuid-field-type': 'uuid_t',
                    'data-stream-type-id-field-type': _u(8, 'uint'),
                },
                'clock-types': {
                    'sysclk': {'$include': ['v3-clk-inc.yaml'], 'frequency': 1000000000, 'precision': 1,
                               'uuid': UUID_B, 'origin-is-unix-epoch': False,
                               'offset': {'seconds': 3, 'cycles': 17}, '$c-type': 'unsigned long'},
                    'other_clk': {},
                },
                'data-stream-types': {
                    'main': {
                        '$include': ['v3-dst-inc.yaml'],
                        '$is-default': True,
                        '$default-clock-type-name': 'sysclk',
                        '$features': {
                            'packet': {
                                'total-size-field-type': 'u64',
                                'content-size-field-type': _u(32, 'uint', alignment=32),
                                'beginning-timestamp-field-type': 'u64hex',
                                'end-timestamp-field-type': {'$inherit': 'u64'},
                                'discarded-event-records-counter-snapshot-field-type': _u(16, 'uint'),
                            },
                            'event-record': {
                                'type-id-field-type': 'id8',
                                'timestamp-field-type': _u(64, 'uint', alignment=8),
                            },
                        },
                        'packet-context-field-type-extra-members': [
                            _m('cpu', _u(8, 'uint')),
                            {'node': 'u16'},
                            _m('tag', {'$inherit': 'myenum', 'preferred-display-base': 'oct'}),
                            _m('load', {'class': 'real', 'size': 32, 'alignment': 32}),
                            _m('hist', {'class': 'static-array', 'length': 2, 'element-field-type': 'u16'}),
                            _m('var', {'class': 'dynamic-array', 'element-field-type': _u(8, 'uint')}),
                        ],
                        'event-record-common-context-field-type': 'ctx_t',
                        'event-record-types': {
                            'ev_a': {'log-level': 'CRIT2',
                                     'specific-context-field-type': {
                                         'class': 'struct',
                                         'members': [_m('sc_u', _u(5, 'uint')), {'sc_s': 's'},
                                                     _m('sc_d', {'class': 'dynamic-array', 'element-field-type': 'flt'})]},
                                     'payload-field-type': payload_all},
                            'ev_b': {'$include': ['v3-ert-inc.yaml'],
                                     'payload-field-type': {'$inherit': 'pl_base',
                                                            'members': [{'z': 's'}, _m('q', _u(1, 'uint'))]}},
                            'ev_c': {'log-level': 3, 'payload-field-type': 'pl_base'},
                        },
                    },
                    'aux': {
                        '$features': {
                            'packet': {'discarded-event-records-counter-snapshot-field-type': False,
                                       'total-size-field-type': True,
                                       'sequence-number-field-type': _u(32, 'uint', alignment=32)},
                            'event-record': {'type-id-field-type': _u(16, 'uint', alignment=16)},
                        },
                        'event-record-common-context-field-type': {
                            'class': 'struct',
                            'members': [_m('cc_a', _u(8, 'uint')),
                                        _m('cc_arr', {'class': 'static-array', 'length': 2, 'element-field-type': 'i12'})]},
                        'event-record-types': {
                            'e1': {'log-level': 'WARNING',
                                   'payload-field-type': {'class': 'struct', 'members': [{'a': 'arr4'}, {'d': 'dbl'}]}},
                            'e2': {'specific-context-field-type': 'inc_struct'},
                            'e3': {'log-level': 'MYLL',
                                   'payload-field-type': {'class': 'struct', 'members': [{'five': 'inc_u5'}]}},
                        },
                    },
                    'third': {
                        '$default-clock-type-name': 'inc_clk',
                        '$features': {'event-record': {'type-id-field-type': False, 'timestamp-field-type': 'u64'}},
                        'event-record-types': {
                            'only': {'payload-field-type': {'class': 'struct', 'members': [_m('v', _u(8, 'uint'))]}},
                        },
                    },
                },
            },
        },
    }
    tt_inc = {
        '$include': ['stdint.yaml', 'stdreal.yaml', 'stdmisc.yaml', 'lttng-ust-log-levels.yaml'],
        '$field-type-aliases': {
            'inc_u5': _u(5, 'uint'),
            'inc_struct': {'class': 'struct',
                           'members': [{'ia': 'uint8'}, _m('ib', {'class': 'sint', 'size': 12, 'alignment': 4}),
                                       _m('ic', {'class': 'static-array', 'length': 2,
                                                 'element-field-type': {'class': 'real', 'size': 32}})]},
        },
        'clock-types': {'inc_clk': {'frequency': 1000, '$c-type': 'uint64_t', 'description': 'slow clock'}},
        '$log-level-aliases': {'MYLL': 7},
    }
    trace_inc = {'environment': {'inc_env': 3, 'inc_name': 'abc'}}
    clk_inc = {'frequency': 123456, 'offset': {'seconds': 5}, 'description': 'included clock'}
    dst_inc = {
        '$include': ['v3-dst-inc2.yaml'],
        '$features': {'packet': {'sequence-number-field-type': True}},
        'event-record-types': {
            'inc_ev': {'log-level': 1,
                       'payload-field-type': {
                           'class': 'struct',
                           'members': [_m('n', _u(32, 'uint', alignment=32)),
                                       _m('en', {'class': 'senum', 'size': 8, 'mappings': {'M': [[-1, 1]]}}),
                                       _m('arr', {'class': 'static-array', 'length': 3,
                                                  'element-field-type': {'class': 'str'}}),
                                       _m('dy', {'class': 'dynamic-array', 'element-field-type': _u(16, 'uint')})]}},
        },
    }
    dst_inc2 = {
        'event-record-types': {
            'inc2_ev': {'specific-context-field-type': {'class': 'struct', 'members': [_m('k', _u(4, 'uint'))]}},
        },
    }
    ert_inc = {
        'log-level': 'DBG',
        'specific-context-field-type': {
            'class': 'struct',
            'members': [_m('inc_sc', {'class': 'real', 'size': 64}),
                        _m('inc_e', {'class': 'uenum', 'size': 4, 'mappings': {'P': [1], 'Q': [[2, 3]]}})]},
    }
    doc = {MAIN: main, 'v3-tt-inc.yaml': tt_inc, 'v3-trace-inc.yaml': trace_inc, 'v3-clk-inc.yaml': clk_inc,
           'v3-dst-inc.yaml': dst_inc, 'v3-dst-inc2.yaml': dst_inc2, 'v3-ert-inc.yaml': ert_inc}
    kinds = {MAIN: 'config', 'v3-tt-inc.yaml': 'trace-type', 'v3-trace-inc.yaml': 'trace',
             'v3-clk-inc.yaml': 'clock-type', 'v3-dst-inc.yaml': 'dst', 'v3-dst-inc2.yaml': 'dst',
             'v3-ert-inc.yaml': 'ert'}
    return Base('v3full', 3, doc, kinds)


def v3_plain():
    """barectf 3 document without aliases, inheritance or inclusions (the early-return path of
    _expand_fts): literal field types only, trace byte order, string prefix, boolean features."""
    main = {
        'options': {'code-generation': {'prefix': 'acme'}},
        'trace': {
            'environment': {'version_major': 3, 'tracer_name': 'acme'},
            'type': {
                'trace-byte-order': 'big-endian',
                'uuid': UUID_B,
                '$features': {'magic-field-type': True, 'uuid-field-type': True,
                              'data-stream-type-id-field-type': _u(16, 'uint', alignment=16)},
                'clock-types': {'clk': {'frequency': 1000000, '$c-type': 'uint64_t'}},
                'data-stream-types': {
                    'first': {
                        '$is-default': True,
                        '$default-clock-type-name': 'clk',
                        '$features': {
                            'packet': {'total-size-field-type': _u(32, 'uint', alignment=32),
                                       'content-size-field-type': _u(32, 'uint', alignment=32),
                                       'beginning-timestamp-field-type': True,
                                       'end-timestamp-field-type': _u(64, 'uint', alignment=64),
                                       'discarded-event-records-counter-snapshot-field-type': True,
                                       'sequence-number-field-type': _u(16, 'uint')},
                            'event-record': {'type-id-field-type': _u(8, 'uint'),
                                             'timestamp-field-type': True}},
                        'packet-context-field-type-extra-members': [
                            _m('cpu_id', _u(8, 'uint')),
                            _m('name', {'class': 'string'})],
                        'event-record-common-context-field-type': {
                            'class': 'structure', 'minimum-alignment': 32,
                            'members': [_m('tid', _u(32, 'uint', alignment=32))]},
                        'event-record-types': {
                            'alpha': {'log-level': 5,
                                      'specific-context-field-type': {
                                          'class': 'struct', 'members': [_m('lvl', {'class': 'sint', 'size': 8})]},
                                      'payload-field-type': {
                                          'class': 'struct',
                                          'members': [
                                              _m('a', _u(7, 'uint', **{'preferred-display-base': 'bin'})),
                                              _m('b', {'class': 'senum', 'size': 16,
                                                       'mappings': {'lo': [[-3, 3]], 'hi': [100]}}),
                                              _m('c', {'class': 'real', 'size': 32, 'alignment': 8}),
                                              _m('d', {'class': 'str'}),
                                              _m('e', {'class': 'static-array', 'length': 0,
                                                       'element-field-type': _u(8, 'uint')}),
                                              _m('f', {'class': 'static-array', 'length': 3,
                                                       'element-field-type': {
                                                           'class': 'static-array', 'length': 2,
                                                           'element-field-type': {'class': 'string'}}}),
                                              _m('g', {'class': 'dynamic-array',
                                                       'element-field-type': {'class': 'real', 'size': 64}}),
                                          ]}},
                            'beta': {'payload-field-type': {'class': 'struct',
                                                            'members': [_m('only', _u(64, 'uint'))]}},
                        },
                    },
                    'second': {
                        'event-record-types': {
                            'gamma': {'payload-field-type': {'class': 'struct',
                                                             'members': [_m('z', {'class': 'sint', 'size': 33})]}},
                        },
                    },
                },
            },
        },
    }
    return Base('v3plain', 3, {MAIN: main}, {MAIN: 'config'})


def _v2int(size, **kw):
    d = {'class': 'int', 'size': size}
    d.update(kw)
    return d


_V2_FLT = {'class': 'float', 'size': {'exp': 8, 'mant': 24}, 'align': 32}
_V2_DBL = {'class': 'floating-point', 'size': {'exp': 11, 'mant': 53}, 'align': 64}


def v2_full():
    """Rich barectf 2 document (dialect 2.2): aliases, inheritance, inclusions at every level."""
    clockmap = [{'type': 'clock', 'name': 'some_clock', 'property': 'value'}]
    aliases = {
        'clock-int': {'$inherit': 'uint64', 'property-mappings': clockmap},
        'bits19': {'class': 'int', 'size': 19, 'base': 'hex'},
        'bits19s': {'$inherit': 'bits19', 'signed': True},
        'old-inh': {'inherit': 'uint16', 'base': 'oct'},
        'myword': 'uint16',
        'myword2': 'myword',
        'state': {'class': 'enum', 'value-type': 'uint8',
                  'members': ['IDLE', 'RUN', {'label': 'WAIT', 'value': [10, 20]}, {'label': 'DEAD', 'value': 99}]},
        'sstate': {'class': 'enumeration',
                   'value-type': {'class': 'int', 'size': 16, 'signed': True, 'align': 16},
                   'members': [{'label': 'NEG', 'value': [-5, -1]}, 'ZERO']},
        'arr3': {'class': 'array', 'length': 3, 'element-type': 'uint8'},
        'arr2x2': {'class': 'array', 'length': 2,
                   'element-type': {'class': 'array', 'length': 2, 'element-type': 'myword'}},
        'dyn8': {'class': 'array', 'length': 'dynamic', 'element-type': 'uint8'},
        'dyn_arr3': {'class': 'array', 'length': 'dynamic', 'element-type': 'arr3'},
        'txt': {'class': 'str', 'encoding': 'ascii'},
        'struct32': {'class': 'struct', 'min-align': 32},
        'def-payload': {'$inherit': 'struct32',
                        'fields': {'haha': 'float', 'hihi': 'uint32', 'hoho': 'double',
                                   'bits': {'class': 'integer', 'size': 3}}},
        'ctx-type': {'class': 'structure', 'fields': {'pid': 'uint32', 'name': 'string'}},
    }
    main = {
        'version': '2.2',
        'prefix': 'bctf_',
        'options': {'gen-prefix-def': True, 'gen-default-stream-def': True},
        'metadata': {
            '$include': ['v2-meta-inc.yaml', 'stdmisc.yaml', 'lttng-ust-log-levels.yaml'],
            'type-aliases': aliases,
            '$log-levels': {'couch': 493, 'tv': 199},
            'env': {'salut': 'lol', 'answer': 42},
            'trace': {'$include': 'v2-trace-inc.yaml', 'byte-order': 'le'},
            'clocks': {
                'some_clock': {'$include': 'v2-clk-inc.yaml', 'description': 'my favorite clock',
                               'offset': {'cycles': 91827439187}, 'error-cycles': 2,
                               'uuid': UUID_B},
                'unused_clock': {'freq': 1000, 'return-ctype': 'uint32_t'},
            },
            '$default-stream': 'my_stream',
            'streams': {
                'my_stream': {
                    'packet-context-type': {
                        'class': 'struct',
                        'fields': {
                            'packet_size': 'uint32', 'content_size': _v2int(32, align=32),
                            'timestamp_begin': 'clock-int', 'timestamp_end': 'clock-int',
                            'events_discarded': _v2int(16),
                            'cpu_id': _v2int(8, align=8),
                            'node': 'myword2',
                            'tag': 'state',
                            'load': dict(_V2_FLT),
                            'hist': {'class': 'array', 'length': 2, 'element-type': 'uint16'},
                        }},
                    'event-header-type': {
                        'class': 'struct',
                        'fields': {'id': 'uint8',
                                   'timestamp': {'class': 'int', 'size': 64, 'align': 8,
                                                 'property-mappings': clockmap}}},
                    'event-context-type': 'ctx-type',
                    'events': {
                        'ev_a': {
                            'log-level': 'couch',
                            'context-type': {'class': 'struct',
                                             'fields': {'sc_u': _v2int(5), 'sc_s': 'txt', 'sc_d': 'dyn8'}},
                            'payload-type': {
                                'class': 'struct', 'min-align': 16,
                                'fields': {
                                    'u': _v2int(9, signed=False, base='dec', **{'byte-order': 'le'}),
                                    'i': _v2int(64, signed=True, align=64, encoding='none'),
                                    'w': 'myword2',
                                    'old': 'old-inh',
                                    'b19': 'bits19s',
                                    'e': {'class': 'enum', 'value-type': _v2int(32),
                                          'members': [{'label': 'X', 'value': 0}, {'label': 'Y', 'value': [10, 20]}]},
                                    'e2': 'sstate',
                                    'r': dict(_V2_DBL, align=32),
                                    'r2': 'float',
                                    'st': {'class': 'string', 'encoding': 'utf8'},
                                    'sa': {'class': 'array', 'length': 5, 'element-type': _v2int(16, align=16)},
                                    'sa_str': {'class': 'array', 'length': 2, 'element-type': 'string'},
                                    'sa2': {'class': 'array', 'length': 2,
                                            'element-type': {'class': 'array', 'length': 3,
                                                             'element-type': dict(_V2_FLT)}},
                                    'sa3': 'arr2x2',
                                    'da': {'class': 'array', 'length': 'dynamic', 'element-type': _v2int(8)},
                                    'da_sa': {'class': 'array', 'length': 'dynamic',
                                              'element-type': {'class': 'array', 'length': 4, 'element-type': 'uint8'}},
                                    'da2': 'dyn_arr3',
                                    'ov': {'$inherit': 'bits19', 'align': 32},
                                }},
                        },
                        'ev_b': {'$include': 'v2-event-inc.yaml', 'payload-type': 'def-payload'},
                        'ev_c': {'log-level': 3,
                                 'payload-type': {'$inherit': 'def-payload', 'fields': {'extra': 'string'}}},
                    },
                },
                'my_other_stream': {
                    '$include': 'v2-stream-inc.yaml',
                    'packet-context-type': {
                        'class': 'struct',
                        'fields': {'packet_size': 'uint32', 'content_size': 'uint32',
                                   'events_discarded': 'uint16'}},
                    'event-header-type': {'class': 'struct', 'fields': {'id': _v2int(16, align=16)}},
                    'events': {
                        'e1': {'log-level': 'WARNING',
                               'payload-type': {'class': 'struct', 'fields': {'a': 'arr3', 'd': 'double'}}},
                        'e2': {'context-type': 'inc-struct'},
                    },
                },
                'third': {
                    'packet-context-type': {
                        'class': 'struct',
                        'fields': {'packet_size': _v2int(16), 'content_size': _v2int(16)}},
                    'events': {'only': {'payload-type': {'class': 'struct', 'fields': {'v': _v2int(8)}}}},
                },
            },
        },
    }
    meta_inc = {
        '$include': ['stdint.yaml', 'stdfloat.yaml'],
        'type-aliases': {
            'inc-u5': _v2int(5),
            'inc-struct': {'class': 'struct',
                           'fields': {'ia': 'uint8', 'ib': _v2int(12, signed=True, align=4),
                                      'ic': {'class': 'array', 'length': 2, 'element-type': dict(_V2_FLT)}}},
        },
        '$log-levels': {'thread': 166655},
        'env': {'inc_env': 3},
        'streams': {
            'my_other_stream': {
                'events': {'meta_ev': {'payload-type': {'class': 'struct', 'fields': {'five': 'inc-u5'}}}},
            },
        },
    }
    trace_inc = {
        '$include': 'trace-basic.yaml',
        'uuid': UUID_A,
        'packet-header-type': {'fields': {'stream_instance_id': _v2int(8)}},
    }
    clk_inc = {'freq': 123456789, 'offset': {'seconds': 18}, 'absolute': True, '$return-ctype': 'unsigned long'}
    stream_inc = {
        'event-context-type': {
            'class': 'struct',
            'fields': {'i': 'int32', 'f': 'float', 's': 'string', 'm': 'ctf-magic',
                       'arr': {'class': 'array', 'length': 2, 'element-type': 'bits19'}}},
        'events': {
            'evev': {'payload-type': 'def-payload'},
            'context_no_payload': {'context-type': {'class': 'struct', 'fields': {'str': 'string'}}},
        },
    }
    event_inc = {'log-level': 'tv', 'context-type': {'class': 'struct', 'fields': {'fff': 'float', 'en': 'state'}}}
    doc = {MAIN: main, 'v2-meta-inc.yaml': meta_inc, 'v2-trace-inc.yaml': trace_inc, 'v2-clk-inc.yaml': clk_inc,
           'v2-stream-inc.yaml': stream_inc, 'v2-event-inc.yaml': event_inc}
    kinds = {MAIN: 'config', 'v2-meta-inc.yaml': 'metadata', 'v2-trace-inc.yaml': 'trace-type',
             'v2-clk-inc.yaml': 'clock-type', 'v2-stream-inc.yaml': 'dst', 'v2-event-inc.yaml': 'ert'}
    return Base('v2full', 2, doc, kinds)


def v2_plain():
    """barectf 2 document (dialect 2.0) without aliases or inclusions: literal field types only."""
    i = _v2int
    main = {
        'version': '2.0',
        'metadata': {
            'log-levels': {'LOW': 1, 'HIGH': 9},
            'env': {'my_system': 'abc'},
            'clocks': {'clk': {'freq': 1000000, 'return-ctype': 'uint64_t', 'absolute': False}},
            'trace': {
                'byte-order': 'be',
                'packet-header-type': {
                    'class': 'struct',
                    'fields': {'magic': i(32, align=32), 'stream_id': i(8)}},
            },
            'streams': {
                'first': {
                    '$default': True,
                    'packet-context-type': {
                        'class': 'struct',
                        'fields': {'packet_size': i(32, align=32), 'content_size': i(32, align=32),
                                   'timestamp_begin': i(64, align=64, **{'property-mappings': [
                                       {'type': 'clock', 'name': 'clk', 'property': 'value'}]}),
                                   'timestamp_end': i(64, align=64, **{'property-mappings': [
                                       {'type': 'clock', 'name': 'clk', 'property': 'value'}]}),
                                   'events_discarded': i(32),
                                   'cpu_id': i(8)}},
                    'event-header-type': {
                        'class': 'struct',
                        'fields': {'id': i(8),
                                   'timestamp': i(32, **{'property-mappings': [
                                       {'type': 'clock', 'name': 'clk', 'property': 'value'}]})}},
                    'event-context-type': {'class': 'struct', 'min-align': 32, 'fields': {'tid': i(32, align=32)}},
                    'events': {
                        'alpha': {
                            'log-level': 'HIGH',
                            'context-type': {'class': 'struct', 'fields': {'lvl': i(8, signed=True)}},
                            'payload-type': {
                                'class': 'struct',
                                'fields': {
                                    'a': i(7, base='bin'),
                                    'b': {'class': 'enum', 'value-type': i(16, signed=True),
                                          'members': [{'label': 'lo', 'value': [-3, 3]}, {'label': 'hi', 'value': 100}]},
                                    'c': {'class': 'flt', 'size': {'exp': 8, 'mant': 24}, 'align': 8},
                                    'd': {'class': 'str'},
                                    'f': {'class': 'array', 'length': 3,
                                          'element-type': {'class': 'array', 'length': 2,
                                                           'element-type': {'class': 'string'}}},
                                    'g': {'class': 'array', 'length': 'dynamic',
                                          'element-type': {'class': 'float', 'size': {'exp': 11, 'mant': 53}}},
                                }},
                        },
                        'beta': {'payload-type': {'class': 'struct', 'fields': {'only': i(64)}}},
                    },
                },
                'second': {
                    'packet-context-type': {
                        'class': 'struct', 'fields': {'packet_size': i(16), 'content_size': i(16)}},
                    'events': {'gamma': {'payload-type': {'class': 'struct', 'fields': {'z': i(33, signed=True)}}}},
                },
            },
        },
    }
    return Base('v2plain', 2, {MAIN: main}, {MAIN: 'config'})


def all_bases():
    return [v3_full(), v2_full(), v3_plain(), v2_plain()]


# ------------------------------------------------------------------ tree access

def tget(doc, file, path):
    n = doc[file]
    for k in path:
        n = n[k]
    return n


def tset(doc, file, path, val):
    if not path:
        doc[file] = val
        return
    n = tget(doc, file, path[:-1])
    n[path[-1]] = val


def tdel(doc, file, path):
    n = tget(doc, file, path[:-1])
    del n[path[-1]]


def rename_key(mapping, old, new):
    """Rename a key keeping the order of the mapping (in place)."""
    items = [((new if k == old else k), v) for k, v in mapping.items()]
    mapping.clear()
    for k, v in items:
        mapping[k] = v


def generic_walk(tree, path=()):
    """Every node of a tree: (path, node)."""
    yield path, tree
    if isinstance(tree, dict):
        for k in list(tree):
            yield from generic_walk(tree[k], path + (k,))
    elif isinstance(tree, list):
        for i, v in enumerate(tree):
            yield from generic_walk(v, path + (i,))


def node_kind(n):
    if isinstance(n, dict):
        return 'mapping'
    if isinstance(n, list):
        return 'sequence'
    if n is None:
        return 'null'
    if isinstance(n, bool):
        return 'bool'
    if isinstance(n, int):
        return 'int'
    if isinstance(n, float):
        return 'float'
    return 'str'


# ------------------------------------------------------------------ typed walkers

class Pos:
    """A position of a document where a constrained object occurs."""
    __slots__ = ('file', 'path', 'kind', 'loc', 'cls', 'name', 'inh')

    def __init__(self, file, path, kind, loc, cls=None, name=None, inh=False):
        self.file, self.path, self.kind, self.loc, self.cls, self.name, self.inh = \
            file, tuple(path), kind, loc, cls, name, inh

    def __repr__(self):
        return 'Pos(%s:%s %s %s %s)' % (self.file, '/'.join(map(str, self.path)), self.kind, self.loc, self.cls)


V3_CLASS = {}
for _c, _names in (('uint', ('uint', 'unsigned-int', 'unsigned-integer')),
                   ('sint', ('sint', 'signed-int', 'signed-integer')),
                   ('uenum', ('uenum', 'unsigned-enum', 'unsigned-enumeration')),
                   ('senum', ('senum', 'signed-enum', 'signed-enumeration')),
                   ('real', ('real',)), ('string', ('str', 'string')),
                   ('sarray', ('static-array',)), ('darray', ('dynamic-array',)),
                   ('struct', ('struct', 'structure'))):
    for _n in _names:
        V3_CLASS[_n] = _c
V2_CLASS = {'int': 'int', 'integer': 'int', 'flt': 'real', 'float': 'real', 'floating-point': 'real',
            'enum': 'enum', 'enumeration': 'enum', 'str': 'string', 'string': 'string', 'array': 'array',
            'struct': 'struct', 'structure': 'struct'}


def package_aliases(dialect):
    res = {}
    d = os.path.join(REPO_BARECTF, 'include', str(dialect))
    key = '$field-type-aliases' if dialect == 3 else 'type-aliases'
    for fn in sorted(os.listdir(d)):
        with open(os.path.join(d, fn)) as f:
            t = yaml.safe_load(f)
        if isinstance(t, dict) and isinstance(t.get(key), dict):
            res.update(t[key])
    return res


def doc_aliases(base_or_doc, dialect):
    doc = base_or_doc.doc if isinstance(base_or_doc, Base) else base_or_doc
    res = dict(package_aliases(dialect))
    key = '$field-type-aliases' if dialect == 3 else 'type-aliases'
    for fn, tree in doc.items():
        for _, n in generic_walk(tree):
            if isinstance(n, dict) and isinstance(n.get(key), dict):
                res.update(n[key])
    return res


def resolve_class(node, aliases, dialect, depth=0):
    table = V3_CLASS if dialect == 3 else V2_CLASS
    if depth > 30:
        return None
    if isinstance(node, str):
        return resolve_class(aliases.get(node), aliases, dialect, depth + 1)
    if isinstance(node, dict):
        if isinstance(node.get('class'), str):
            c = table.get(node['class'])
            if c == 'array' and dialect == 2:
                return 'darray' if node.get('length') == 'dynamic' else 'sarray'
            return c
        for k in ('$inherit', 'inherit'):
            if k in node:
                return resolve_class(node[k], aliases, dialect, depth + 1)
        if 'fields' in node or 'members' in node:
            return 'struct'     # overlay of an included structure field type
    return None


def walk_v3(base):
    al = doc_aliases(base, 3)
    out = []

    def ft(file, v, p, loc):
        if isinstance(v, str):
            out.append(Pos(file, p, 'ft-ref', loc, cls=resolve_class(v, al, 3), name=v))
            return
        if not isinstance(v, dict):
            return
        cls = resolve_class(v, al, 3)
        out.append(Pos(file, p, 'ft', loc, cls=cls, inh='$inherit' in v))
        if '$inherit' in v:
            out.append(Pos(file, p + ('$inherit',), 'inherit-ref', loc, cls=cls, name=v['$inherit']))
        if 'element-field-type' in v:
            ft(file, v['element-field-type'], p + ('element-field-type',),
               loc + ('>dyn-elem' if cls == 'darray' else '>elem'))
        if isinstance(v.get('members'), list):
            members(file, v['members'], p + ('members',), loc)

    def members(file, lst, p, loc):
        out.append(Pos(file, p, 'members', loc))
        for i, entry in enumerate(lst):
            name, val = list(entry.items())[0]
            out.append(Pos(file, p + (i,), 'member-entry', loc + '>member', name=name))
            if isinstance(val, str):
                ft(file, val, p + (i, name), loc + '>member')
            elif isinstance(val, dict):
                out.append(Pos(file, p + (i, name), 'member-obj', loc + '>member', name=name))
                if 'field-type' in val:
                    ft(file, val['field-type'], p + (i, name, 'field-type'), loc + '>member')

    def incl(file, n, p, loc, kind):
        out.append(Pos(file, p, 'includable', loc, cls=kind, inh='$include' in n))

    def ert(file, n, p, loc, name=None):
        out.append(Pos(file, p, 'ert', loc, name=name))
        incl(file, n, p, loc, 'ert')
        if 'specific-context-field-type' in n:
            ft(file, n['specific-context-field-type'], p + ('specific-context-field-type',), loc + 'sctx')
        if 'payload-field-type' in n:
            ft(file, n['payload-field-type'], p + ('payload-field-type',), loc + 'payload')

    def dst(file, n, p, loc, name=None):
        out.append(Pos(file, p, 'dst', loc, name=name))
        incl(file, n, p, loc, 'dst')
        f = n.get('$features')
        if isinstance(f, dict):
            out.append(Pos(file, p + ('$features',), 'dst-features', loc))
            for grp, kind in (('packet', 'pkt-features'), ('event-record', 'er-features')):
                g = f.get(grp)
                if isinstance(g, dict):
                    out.append(Pos(file, p + ('$features', grp), kind, loc))
                    for k, v in g.items():
                        if isinstance(v, bool):
                            out.append(Pos(file, p + ('$features', grp, k), 'feature-bool', loc + 'feature.' + grp, name=k))
                        else:
                            ft(file, v, p + ('$features', grp, k), loc + 'feature.' + grp)
        if isinstance(n.get('packet-context-field-type-extra-members'), list):
            members(file, n['packet-context-field-type-extra-members'],
                    p + ('packet-context-field-type-extra-members',), loc + 'pcx')
        if 'event-record-common-context-field-type' in n:
            ft(file, n['event-record-common-context-field-type'],
               p + ('event-record-common-context-field-type',), loc + 'cctx')
        if isinstance(n.get('event-record-types'), dict):
            out.append(Pos(file, p + ('event-record-types',), 'erts', loc))
            for k, v in n['event-record-types'].items():
                ert(file, v, p + ('event-record-types', k), loc, name=k)

    def clk(file, n, p, loc, name=None):
        out.append(Pos(file, p, 'clock-type', loc, name=name))
        incl(file, n, p, loc, 'clock-type')
        if isinstance(n.get('offset'), dict):
            out.append(Pos(file, p + ('offset',), 'clock-offset', loc))

    def tt(file, n, p, loc):
        out.append(Pos(file, p, 'trace-type', loc))
        incl(file, n, p, loc, 'trace-type')
        a = n.get('$field-type-aliases')
        if isinstance(a, dict):
            out.append(Pos(file, p + ('$field-type-aliases',), 'aliases', loc))
            for k, v in a.items():
                ft(file, v, p + ('$field-type-aliases', k), loc + 'alias')
        if isinstance(n.get('$log-level-aliases'), dict):
            out.append(Pos(file, p + ('$log-level-aliases',), 'll-aliases', loc))
        f = n.get('$features')
        if isinstance(f, dict):
            out.append(Pos(file, p + ('$features',), 'tt-features', loc))
            for k, v in f.items():
                if isinstance(v, bool):
                    out.append(Pos(file, p + ('$features', k), 'feature-bool', loc + 'feature.tt', name=k))
                else:
                    ft(file, v, p + ('$features', k), loc + 'feature.tt')
        if isinstance(n.get('clock-types'), dict):
            out.append(Pos(file, p + ('clock-types',), 'clock-types', loc))
            for k, v in n['clock-types'].items():
                clk(file, v, p + ('clock-types', k), loc, name=k)
        if isinstance(n.get('data-stream-types'), dict):
            out.append(Pos(file, p + ('data-stream-types',), 'dsts', loc))
            for k, v in n['data-stream-types'].items():
                dst(file, v, p + ('data-stream-types', k), loc, name=k)

    def trace(file, n, p, loc):
        out.append(Pos(file, p, 'trace', loc))
        incl(file, n, p, loc, 'trace')
        if isinstance(n.get('environment'), dict):
            out.append(Pos(file, p + ('environment',), 'env', loc))
        if isinstance(n.get('type'), dict):
            tt(file, n['type'], p + ('type',), loc)

    def config(file, n, p, loc):
        out.append(Pos(file, p, 'config', loc))
        o = n.get('options')
        if isinstance(o, dict):
            out.append(Pos(file, p + ('options',), 'options', loc))
            cg = o.get('code-generation')
            if isinstance(cg, dict):
                out.append(Pos(file, p + ('options', 'code-generation'), 'codegen', loc))
                if isinstance(cg.get('prefix'), dict):
                    out.append(Pos(file, p + ('options', 'code-generation', 'prefix'), 'prefix-obj', loc))
                elif isinstance(cg.get('prefix'), str):
                    out.append(Pos(file, p + ('options', 'code-generation', 'prefix'), 'prefix-str', loc))
                if isinstance(cg.get('header'), dict):
                    out.append(Pos(file, p + ('options', 'code-generation', 'header'), 'header', loc))
        if isinstance(n.get('trace'), dict):
            trace(file, n['trace'], p + ('trace',), loc)

    fn = {'config': config, 'trace': trace, 'trace-type': tt, 'clock-type': clk, 'dst': dst, 'ert': ert}
    for file in sorted(base.doc):
        kind = base.kinds[file]
        fn[kind](file, base.doc[file], (), '' if file == MAIN else 'inc:%s:' % kind)
    return out


def walk_v2(base):
    al = doc_aliases(base, 2)
    out = []

    def ft(file, v, p, loc):
        if isinstance(v, str):
            out.append(Pos(file, p, 'ft-ref', loc, cls=resolve_class(v, al, 2), name=v))
            return
        if not isinstance(v, dict):
            return
        cls = resolve_class(v, al, 2)
        inh = '$inherit' in v or 'inherit' in v
        out.append(Pos(file, p, 'ft', loc, cls=cls, inh=inh))
        for k in ('$inherit', 'inherit'):
            if k in v:
                out.append(Pos(file, p + (k,), 'inherit-ref', loc, cls=cls, name=v[k]))
        if 'element-type' in v:
            ft(file, v['element-type'], p + ('element-type',), loc + ('>dyn-elem' if cls == 'darray' else '>elem'))
        if 'value-type' in v:
            ft(file, v['value-type'], p + ('value-type',), loc + '>value-type')
        if isinstance(v.get('fields'), dict):
            out.append(Pos(file, p + ('fields',), 'members', loc))
            for k, fv in v['fields'].items():
                out.append(Pos(file, p + ('fields', k), 'member-entry', loc + '>member', name=k))
                ft(file, fv, p + ('fields', k), loc + '>member')

    def incl(file, n, p, loc, kind):
        out.append(Pos(file, p, 'includable', loc, cls=kind, inh='$include' in n))

    def ert(file, n, p, loc, name=None):
        out.append(Pos(file, p, 'ert', loc, name=name))
        incl(file, n, p, loc, 'ert')
        if 'context-type' in n:
            ft(file, n['context-type'], p + ('context-type',), loc + 'sctx')
        if 'payload-type' in n:
            ft(file, n['payload-type'], p + ('payload-type',), loc + 'payload')

    def dst(file, n, p, loc, name=None):
        out.append(Pos(file, p, 'dst', loc, name=name))
        incl(file, n, p, loc, 'dst')
        for k, l in (('packet-context-type', 'pkt-ctx'), ('event-header-type', 'ev-header'),
                     ('event-context-type', 'cctx')):
            if k in n:
                ft(file, n[k], p + (k,), loc + l)
        if isinstance(n.get('events'), dict):
            out.append(Pos(file, p + ('events',), 'erts', loc))
            for k, v in n['events'].items():
                ert(file, v, p + ('events', k), loc, name=k)

    def clk(file, n, p, loc, name=None):
        out.append(Pos(file, p, 'clock-type', loc, name=name))
        incl(file, n, p, loc, 'clock-type')
        if isinstance(n.get('offset'), dict):
            out.append(Pos(file, p + ('offset',), 'clock-offset', loc))

    def tt(file, n, p, loc):
        out.append(Pos(file, p, 'trace-type', loc))
        incl(file, n, p, loc, 'trace-type')
        if 'packet-header-type' in n:
            ft(file, n['packet-header-type'], p + ('packet-header-type',), loc + 'pkt-header')

    def meta(file, n, p, loc):
        out.append(Pos(file, p, 'metadata', loc))
        incl(file, n, p, loc, 'metadata')
        a = n.get('type-aliases')
        if isinstance(a, dict):
            out.append(Pos(file, p + ('type-aliases',), 'aliases', loc))
            for k, v in a.items():
                ft(file, v, p + ('type-aliases', k), loc + 'alias')
        for k in ('$log-levels', 'log-levels'):
            if isinstance(n.get(k), dict):
                out.append(Pos(file, p + (k,), 'll-aliases', loc))
        if isinstance(n.get('env'), dict):
            out.append(Pos(file, p + ('env',), 'env', loc))
        if isinstance(n.get('clocks'), dict):
            out.append(Pos(file, p + ('clocks',), 'clock-types', loc))
            for k, v in n['clocks'].items():
                clk(file, v, p + ('clocks', k), loc, name=k)
        if isinstance(n.get('trace'), dict):
            tt(file, n['trace'], p + ('trace',), loc)
        if isinstance(n.get('streams'), dict):
            out.append(Pos(file, p + ('streams',), 'dsts', loc))
            for k, v in n['streams'].items():
                dst(file, v, p + ('streams', k), loc, name=k)

    def config(file, n, p, loc):
        out.append(Pos(file, p, 'config', loc))
        if isinstance(n.get('options'), dict):
            out.append(Pos(file, p + ('options',), 'options', loc))
        if isinstance(n.get('prefix'), str):
            out.append(Pos(file, p + ('prefix',), 'prefix-str', loc))
        if isinstance(n.get('metadata'), dict):
            meta(file, n['metadata'], p + ('metadata',), loc)

    fn = {'config': config, 'metadata': meta, 'trace-type': tt, 'clock-type': clk, 'dst': dst, 'ert': ert}
    for file in sorted(base.doc):
        kind = base.kinds[file]
        fn[kind](file, base.doc[file], (), '' if file == MAIN else 'inc:%s:' % kind)
    return out


def walk(base):
    return walk_v3(base) if base.dialect == 3 else walk_v2(base)


# ------------------------------------------------------------------ running the real front end

class CaseTimeout(BaseException):
    pass


def _alarm(signum, frame):
    raise CaseTimeout()


def barectf_site(tb):
    """Innermost frame inside /repo/barectf of a traceback: (file:function, line)."""
    site = None
    for fr in traceback.extract_tb(tb):
        if fr.filename.startswith(REPO_BARECTF + '/'):
            site = ('%s:%s' % (os.path.basename(fr.filename), fr.name), fr.lineno)
    return site


def innermost(tb):
    frs = traceback.extract_tb(tb)
    if not frs:
        return None
    fr = frs[-1]
    return '%s:%s' % ('/'.join(fr.filename.split('/')[-2:]), fr.name)


def call_api(api, path, incdirs, timeout=8.0):
    """Run one front-end entry point of the REAL barectf on a file.  Returns a dict:
    outcome in ok / cpe / other / timeout, plus details.  Never raises."""
    import bt  # noqa: F401  (forces /repo)
    import barectf
    import yaml
    res = {'api': api}
    # number of YAML documents the front end loads during this call (its own schemas + the case's files): a flat
    # document that makes it load hundreds of documents is recursing without bound (e.g. an undetected inclusion
    # cycle), even when the interpreter's recursion limit ends up being reported as a configuration error
    loads = [0]
    yaml_load = yaml.load

    def counting_load(*a, **k):
        loads[0] += 1
        return yaml_load(*a, **k)
    yaml.load = counting_load
    old = signal.signal(signal.SIGALRM, _alarm)
    signal.setitimer(signal.ITIMER_REAL, timeout)
    try:
        try:
            with open(path) as f:
                if api == 'from_file':
                    v = barectf.configuration_from_file(f, inclusion_directories=list(incdirs))
                elif api == 'effective':
                    v = barectf.effective_configuration_file(f, inclusion_directories=list(incdirs))
                else:
                    v = barectf.configuration_file_major_version(f)
            signal.setitimer(signal.ITIMER_REAL, 0)
            res['outcome'] = 'ok'
            res['value'] = v
        except barectf._ConfigurationParseError as exc:
            signal.setitimer(signal.ITIMER_REAL, 0)
            res['outcome'] = 'cpe'
            try:
                ctxs = exc.context
                msg = str(exc)
                good = (isinstance(ctxs, list) and len(ctxs) > 0 and
                        all(isinstance(c.name, str) and c.name for c in ctxs) and bool(msg.strip()))
            except Exception as e2:  # malformed error object
                good, msg = False, 'error object unusable: %r' % (e2,)
            res['cpe_ok'] = good
            res['msg'] = msg[:400]
        except CaseTimeout:
            res['outcome'] = 'timeout'
        except BaseException as exc:  # noqa: BLE001  (the point is to classify anything)
            signal.setitimer(signal.ITIMER_REAL, 0)
            res['outcome'] = 'other'
            res['exc_type'] = type(exc).__name__
            res['msg'] = str(exc)[:300]
            site = barectf_site(exc.__traceback__)
            res['site'] = site[0] if site else None
            res['line'] = site[1] if site else None
            res['inner'] = innermost(exc.__traceback__)
            if isinstance(exc, (KeyboardInterrupt, SystemExit)):
                res['exc_type'] = type(exc).__name__
    except CaseTimeout:
        # the alarm went off inside one of the handlers above (loaded machine)
        res = {'api': api, 'outcome': 'timeout'}
    finally:
        signal.setitimer(signal.ITIMER_REAL, 0)
        signal.signal(signal.SIGALRM, old)
        yaml.load = yaml_load
    res['yaml_loads'] = loads[0]
    return res


def call_api_confirmed(api, path, incdirs, timeout=8.0):
    """call_api with a confirmation run: a timeout only counts when a second run with four times the time does not
    finish either (the machine may be loaded)."""
    r = call_api(api, path, incdirs, timeout=timeout)
    if r['outcome'] == 'timeout':
        r = call_api(api, path, incdirs, timeout=timeout * 4)
    return r


def write_case(dirpath, files):
    os.makedirs(dirpath, exist_ok=True)
    for fn, text in files.items():
        mode = 'wb' if isinstance(text, bytes) else 'w'
        with open(os.path.join(dirpath, fn), mode) as f:
            f.write(text)
    return os.path.join(dirpath, MAIN)


def sha(text):
    if isinstance(text, str):
        text = text.encode('utf-8', 'surrogateescape')
    return hashlib.sha256(text).hexdigest()


def strip_volatile(tree):
    """Effective configuration with `uuid: auto` results removed (uuid1 differs at every load)."""
    t = copy.deepcopy(tree)
    try:
        t['trace']['type'].pop('uuid', None)
    except Exception:
        pass
    return t


def diff_paths(a, b, path=()):
    """Paths at which two trees differ (outermost differing nodes).  Mapping key order is not
    significant; scalar comparison is type-sensitive (8 and 8.0 differ)."""
    if type(a) is not type(b):
        return [path]
    if isinstance(a, dict):
        res = []
        for k in sorted(set(a) ^ set(b), key=str):
            res.append(path + (k,))
        for k in a:
            if k in b:
                res += diff_paths(a[k], b[k], path + (k,))
        return res
    if isinstance(a, list):
        if len(a) != len(b):
            return [path]
        res = []
        for i, (x, y) in enumerate(zip(a, b)):
            res += diff_paths(x, y, path + (i,))
        return res
    return [] if a == b else [path]


def through_dynamic_array(tree, path):
    """True when a node on `path` (or its parent chain) in `tree` is a dynamic array field type node."""
    n = tree
    for k in path:
        if isinstance(n, dict) and n.get('class') == 'dynamic-array':
            return True
        try:
            n = n[k]
        except Exception:
            return False
    return isinstance(n, dict) and n.get('class') == 'dynamic-array'


def compile_generated(files, outdir, seen_dir=None):
    """Compile every generated .c file (strict ANSI C, syntax only).  With seen_dir, identical
    generated contents are compiled once (across worker processes) and the verdict is shared.
    Returns list of (file, compiler output) failures."""
    import json
    import time as _time
    import bt
    fails = []
    for name in sorted(files):
        if not name.endswith('.c'):
            continue
        resf = lockf = None
        if seen_dir is not None:
            h = sha('\0'.join('%s\0%s' % (n, files[n]) for n in sorted(files) if n.endswith(('.c', '.h'))) + name)
            resf, lockf = os.path.join(seen_dir, h + '.res'), os.path.join(seen_dir, h + '.lock')
            mine = False
            if not os.path.exists(resf):
                try:
                    os.close(os.open(lockf, os.O_CREAT | os.O_EXCL | os.O_WRONLY))
                    mine = True
                except FileExistsError:
                    for _ in range(100):     # another worker compiles the same contents
                        if os.path.exists(resf):
                            break
                        _time.sleep(0.1)
            if not mine and os.path.exists(resf):
                with open(resf) as f:
                    out = json.load(f)
                if out:
                    fails.append((name, out))
                continue
        # a tracer configured for a big-endian target refuses to compile for this (little-endian) host by design
        # (`#error` guard on __BYTE_ORDER__): check it as the compiler of such a target would see it
        be = ['-Wno-builtin-macro-redefined', '-U__BYTE_ORDER__', '-D__BYTE_ORDER__=__ORDER_BIG_ENDIAN__'] \
            if '__BYTE_ORDER__ != __ORDER_BIG_ENDIAN__' in str(files[name]) else []
        rc, out = bt.cc(['-ansi', '-pedantic-errors', '-fsyntax-only'] + be + ['-I', outdir, os.path.join(outdir, name)],
                        cwd=outdir, timeout=120)
        out = re.sub(r'/\S*/(gen[^/ ]*/)', r'\1', out)[-1500:] if rc != 0 else ''
        if resf is not None:
            with open(resf + '.tmp%d' % os.getpid(), 'w') as f:
                json.dump(out, f)
            os.replace(resf + '.tmp%d' % os.getpid(), resf)
        if rc != 0:
            fails.append((name, out))
    return fails


# ------------------------------------------------------------------ process pool

def run_pool(func, tasks, workers=14, chunk=16):
    """Run func over tasks in worker processes (fork).  A worker that dies (stack overflow in C,
    os._exit ...) does not kill the harness: the chunk in flight is re-run task by task in fresh
    single-worker pools and the culprit gets the result {'outcome': 'crash'}.
    Results come back in task order."""
    import concurrent.futures as cf
    import multiprocessing as mp
    ctxm = mp.get_context('fork')
    results = [None] * len(tasks)
    chunks = [list(range(i, min(i + chunk, len(tasks)))) for i in range(0, len(tasks), chunk)]
    todo = chunks
    while todo:
        broken = []
        with cf.ProcessPoolExecutor(max_workers=workers, mp_context=ctxm) as ex:
            futs = {ex.submit(_run_chunk, func, [tasks[i] for i in ch]): ch for ch in todo}
            for fut in cf.as_completed(futs):
                ch = futs[fut]
                try:
                    for i, r in zip(ch, fut.result()):
                        results[i] = r
                except Exception:  # BrokenProcessPool or pickling problem
                    broken.append(ch)
        todo = []
        for ch in broken:
            if len(ch) == 1:
                i = ch[0]
                try:
                    with cf.ProcessPoolExecutor(max_workers=1, mp_context=ctxm) as ex:
                        results[i] = ex.submit(_run_chunk, func, [tasks[i]]).result()[0]
                except Exception as e:
                    results[i] = {'outcome': 'crash', 'msg': 'worker process died: %r' % (e,)}
            else:
                todo += [[i] for i in ch]
    return results


def _run_chunk(func, items):
    return [func(t) for t in items]
