"""C18: barectf 2 documents OUTSIDE the twin domain (for the conversion correspondence and the finding
probes): mutation operators on a generated barectf 2 tree, and a generator of raw barectf 2 field type
nodes that uses every spelling and every optional/null property the `config/2/field-type` schema allows.
All randomness from the rng argument."""
import collections
import copy

OD = collections.OrderedDict


def _pm(clock):
    return [OD([('type', 'clock'), ('name', clock), ('property', 'value')])]


def _streams(t):
    return t['metadata']['streams']


def _structs(t):
    """Every inline structure node of the document with a `fields` mapping (path description, node)."""
    out = []

    def walk(n, where):
        if isinstance(n, OD):
            if n.get('class') in ('struct', 'structure') and isinstance(n.get('fields'), OD):
                out.append((where, n))
            for k, v in n.items():
                walk(v, where + '/' + k)
        elif isinstance(n, list):
            for i, v in enumerate(n):
                walk(v, where + '/%d' % i)
    walk(t, '')
    return out


def _nodes(t, pred):
    out = []

    def walk(n):
        if isinstance(n, OD):
            if pred(n):
                out.append(n)
            for v in n.values():
                walk(v)
        elif isinstance(n, list):
            for v in n:
                walk(v)
    walk(t)
    return out


def m_seq_num(t, rng):
    s = rng.choice(list(_streams(t).values()))
    s['packet-context-type']['fields']['packet_seq_num'] = OD([('class', 'int'), ('size', rng.choice([8, 16, 32, 64]))])


def m_ph_extra(t, rng):
    tr = t['metadata']['trace']
    ph = tr.get('packet-header-type')
    if not isinstance(ph, OD) or not isinstance(ph.get('fields'), OD):
        tr['packet-header-type'] = ph = OD([('class', 'struct'), ('fields', OD())])
    name = rng.choice(['stream_instance_id', 'stream_instance_id', 'my_ph_member', 'zz'])
    ph['fields'][name] = OD([('class', 'int'), ('size', rng.choice([8, 16, 32]))])
    if len(_streams(t)) > 1 and 'stream_id' not in ph['fields']:
        ph['fields']['stream_id'] = OD([('class', 'int'), ('size', 8)])


def m_eh_extra(t, rng):
    s = rng.choice(list(_streams(t).values()))
    eh = s.get('event-header-type')
    if not isinstance(eh, OD) or not isinstance(eh.get('fields'), OD):
        s['event-header-type'] = eh = OD([('class', 'struct'), ('fields', OD())])
        if len(s['events']) > 1:
            eh['fields']['id'] = OD([('class', 'int'), ('size', 8)])
    eh['fields'][rng.choice(['my_eh_member', 'cpu', 'x9'])] = OD([('class', 'int'), ('size', rng.choice([8, 16]))])


def m_mixed_clocks(t, rng):
    meta = t['metadata']
    clocks = meta.setdefault('clocks', OD())
    for c in ('clkA', 'clkB'):
        clocks.setdefault(c, OD([('freq', 1000)]))
    s = rng.choice(list(_streams(t).values()))
    f = s['packet-context-type']['fields']
    kind = rng.choice(['eh-vs-pc', 'begin-vs-end', 'eh-vs-pc'])
    f['timestamp_begin'] = OD([('class', 'int'), ('size', 64), ('property-mappings', _pm('clkB'))])
    f['timestamp_end'] = OD([('class', 'int'), ('size', 64), ('property-mappings', _pm('clkB' if kind == 'eh-vs-pc' else 'clkA'))])
    eh = s.get('event-header-type')
    if not isinstance(eh, OD) or not isinstance(eh.get('fields'), OD):
        s['event-header-type'] = eh = OD([('class', 'struct'), ('fields', OD())])
        if len(s['events']) > 1:
            eh['fields']['id'] = OD([('class', 'int'), ('size', 8)])
    eh['fields']['timestamp'] = OD([('class', 'int'), ('size', 64), ('property-mappings', _pm('clkA'))])


def _payload_ints(t):
    out = []
    for s in _streams(t).values():
        for e in s['events'].values():
            for key in ('payload-type', 'context-type'):
                st = e.get(key)
                if isinstance(st, OD):
                    out += _nodes(st, lambda n: n.get('class') in ('int', 'integer'))
        st = s.get('event-context-type')
        if isinstance(st, OD):
            out += _nodes(st, lambda n: n.get('class') in ('int', 'integer'))
    return out


def m_payload_mapping(t, rng):
    ints = _payload_ints(t)
    if not ints:
        return False
    clocks = t['metadata'].setdefault('clocks', OD())
    clocks.setdefault('clkA', OD([('freq', 1000)]))
    rng.choice(ints)['property-mappings'] = _pm('clkA')


def m_int_attrs(t, rng):
    ints = _payload_ints(t)
    if not ints:
        return False
    n = rng.choice(ints)
    r = rng.random()
    if r < 0.4:
        n['byte-order'] = rng.choice(['le', 'be', 'little', 'big-endian', None])
    elif r < 0.8:
        n['encoding'] = rng.choice(['utf8', 'ascii', 'UTF-8', 'none', None])
    else:
        n['property-mappings'] = None


def m_float_bo(t, rng):
    fl = _nodes(t['metadata']['streams'], lambda n: n.get('class') in ('flt', 'float', 'floating-point'))
    if not fl:
        s = rng.choice(list(_streams(t).values()))
        e = rng.choice(list(s['events'].values()))
        p = e.get('payload-type')
        if not isinstance(p, OD) or not isinstance(p.get('fields'), OD):
            e['payload-type'] = p = OD([('class', 'struct'), ('fields', OD())])
        p['fields']['fbo'] = OD([('class', 'float'), ('size', OD([('exp', 8), ('mant', 24)]))])
        fl = [p['fields']['fbo']]
    bo = t['metadata']['trace']['byte-order']
    rng.choice(fl)['byte-order'] = rng.choice([bo, bo, 'le', 'be', None])


def m_fields_null(t, rng):
    st = [n for w, n in _structs(t) if 'packet-context-type' not in w.split('/')[-1:]]
    kind = rng.choice(['null', 'null', 'eh-absent', 'ph-absent', 'pc-null', 'eh-null', 'ph-null'])
    if kind == 'null' and st:
        rng.choice(st)['fields'] = None
    elif kind == 'eh-absent':
        rng.choice(list(_streams(t).values()))['event-header-type'] = OD([('class', 'struct')])
    elif kind == 'ph-absent':
        t['metadata']['trace']['packet-header-type'] = OD([('class', 'struct')])
    elif kind == 'pc-null':
        rng.choice(list(_streams(t).values()))['packet-context-type']['fields'] = None
    elif kind == 'eh-null':
        rng.choice(list(_streams(t).values()))['event-header-type'] = OD([('class', 'struct'), ('fields', None)])
    elif kind == 'ph-null':
        t['metadata']['trace']['packet-header-type'] = OD([('class', 'struct'), ('fields', None)])
    else:
        return False


def m_nulls(t, rng):
    meta = t['metadata']
    cands = []
    for n in _nodes(meta, lambda n: isinstance(n.get('class'), str)):
        for k in ('align', 'signed', 'base', 'min-align', 'encoding', 'byte-order'):
            if k in n or rng.random() < 0.15:
                if n['class'] in ('int', 'integer') or (k == 'min-align' and n['class'] in ('struct', 'structure')) \
                        or (k in ('align', 'byte-order') and n['class'] in ('flt', 'float', 'floating-point')) \
                        or (k == 'encoding' and n['class'] in ('str', 'string')):
                    cands.append((n, k))
    for c in (meta.get('clocks') or OD()).values():
        for k in ('freq', 'error-cycles', 'offset', 'absolute', 'description', 'uuid'):
            cands.append((c, k))
    for s in _streams(t).values():
        cands += [(s, '$default'), (s, 'event-header-type'), (s, 'event-context-type')]
        for e in s['events'].values():
            cands += [(e, 'log-level'), (e, 'context-type')]
            if e.get('context-type') is not None or s.get('event-header-type') is not None:
                cands.append((e, 'payload-type'))
    cands += [(meta, 'env'), (meta, '$default-stream'), (meta['trace'], 'uuid'), (meta['trace'], 'packet-header-type')]
    if not any(k in meta for k in ('log-levels', '$log-levels')):
        cands.append((meta, '$log-levels'))
    for _ in range(rng.randint(1, 4)):
        n, k = rng.choice(cands)
        n[k] = None
    # a stream of several events needs its `id`; several streams need `stream_id`: keep those
    if len(_streams(t)) > 1 and meta['trace'].get('packet-header-type') is None:
        meta['trace']['packet-header-type'] = OD([('class', 'struct'), ('fields', OD([('stream_id', OD([('class', 'int'), ('size', 8)]))]))])


def m_default_stream(t, rng):
    meta = t['metadata']
    names = list(_streams(t))
    r = rng.random()
    if r < 0.4:
        meta['$default-stream'] = 'no_such_stream'
    elif r < 0.7 and len(names) > 1:
        meta['$default-stream'] = names[0]
        _streams(t)[names[1]]['$default'] = True
    else:
        meta['$default-stream'] = rng.choice(names)
        _streams(t)[meta['$default-stream']]['$default'] = rng.choice([True, False, None])


def m_nested(t, rng):
    st = [n for w, n in _structs(t)]
    n = rng.choice(st)
    if rng.random() < 0.5:
        n['fields']['nst'] = OD([('class', 'struct'), ('fields', OD([('in1', OD([('class', 'int'), ('size', 8)]))]))])
    else:
        n['fields']['ndyn'] = OD([('class', 'array'), ('length', rng.choice([2, 'dynamic'])), ('element-type',
                                  OD([('class', 'array'), ('length', 'dynamic'), ('element-type', OD([('class', 'int'), ('size', 8)]))]))])


def m_enum_shapes(t, rng):
    st = [n for w, n in _structs(t)]
    n = rng.choice(st)
    e = OD([('class', rng.choice(['enum', 'enumeration'])), ('value-type', OD([('class', 'int'), ('size', rng.choice([8, 16])), ('signed', rng.choice([True, False]))]))])
    r = rng.random()
    if r < 0.3:
        pass                                    # no `members` at all (the barectf 2 schema does not require it)
    elif r < 0.6:
        e['members'] = ['a', 'a', OD([('label', 'a'), ('value', [5, 9])]), 'b', OD([('label', 'b'), ('value', 3)]), 'c']
    else:
        e['members'] = [OD([('label', 'r'), ('value', [7, 2])]), 'after']       # inverted range
    n['fields']['enm'] = e


def m_clock_both_ctypes(t, rng):
    clocks = t['metadata'].setdefault('clocks', OD())
    c = clocks.setdefault('clkC', OD())
    c['return-ctype'] = 'unsigned long'
    if rng.random() < 0.5:
        c['$return-ctype'] = None


OPERATORS = [
    ('packet_seq_num', m_seq_num), ('packet-header-extra-member', m_ph_extra), ('event-header-extra-member', m_eh_extra),
    ('mixed-clocks', m_mixed_clocks), ('payload-property-mapping', m_payload_mapping), ('int-byte-order-encoding', m_int_attrs),
    ('float-byte-order', m_float_bo), ('struct-fields-null-or-absent', m_fields_null), ('null-properties', m_nulls),
    ('default-stream', m_default_stream), ('nested-struct-or-dynamic', m_nested), ('enum-shapes', m_enum_shapes),
    ('clock-ctype-spellings', m_clock_both_ctypes),
]


def mutate(tree, rng):
    """(name of the operator, mutated deep copy) or None when the operator does not apply."""
    name, op = rng.choice(OPERATORS)
    t = copy.deepcopy(tree)
    if op(t, rng) is False:
        return None
    return name, t


# ------------------------------------------------------------------ raw barectf 2 field type nodes

def _maybe(rng, n, key, vals, p=0.5, null=0.12):
    if rng.random() < p:
        n[key] = None if rng.random() < null else rng.choice(vals)


def raw_int(rng):
    n = OD()
    keys = ['class', 'size', 'signed', 'align', 'base', 'byte-order', 'encoding', 'property-mappings']
    rng.shuffle(keys)
    for k in keys:
        if k == 'class':
            n[k] = rng.choice(['int', 'integer'])
        elif k == 'size':
            n[k] = rng.randint(1, 64)
        elif k == 'signed':
            _maybe(rng, n, k, [True, False])
        elif k == 'align':
            _maybe(rng, n, k, [1, 2, 4, 8, 16, 32, 64, 3])
        elif k == 'base':
            _maybe(rng, n, k, ['bin', 'binary', 'oct', 'octal', 'dec', 'decimal', 'hex', 'hexadecimal'], 0.4)
        elif k == 'byte-order':
            _maybe(rng, n, k, ['le', 'be', 'little', 'big', 'little-endian', 'big-endian'], 0.25)
        elif k == 'encoding':
            _maybe(rng, n, k, ['utf8', 'UTF-8', 'ascii', 'none', 'NONE'], 0.2)
        elif k == 'property-mappings':
            _maybe(rng, n, k, [_pm('c1'), _pm('other')], 0.2)
    return n


def raw_ft(rng, depth=0):
    r = rng.random()
    if r < 0.35 or depth > 3:
        return raw_int(rng)
    if r < 0.5:
        n = OD()
        keys = ['class', 'size', 'align', 'byte-order']
        rng.shuffle(keys)
        for k in keys:
            if k == 'class':
                n[k] = rng.choice(['flt', 'float', 'floating-point'])
            elif k == 'size':
                n[k] = rng.choice([OD([('exp', 8), ('mant', 24)]), OD([('mant', 53), ('exp', 11)])])
            elif k == 'align':
                _maybe(rng, n, k, [1, 8, 32, 64])
            else:
                _maybe(rng, n, k, ['le', 'be'], 0.2)
        return n
    if r < 0.65:
        n = OD()
        keys = ['class', 'value-type', 'members']
        rng.shuffle(keys)
        for k in keys:
            if k == 'class':
                n[k] = rng.choice(['enum', 'enumeration'])
            elif k == 'value-type':
                n[k] = raw_int(rng)
            elif rng.random() < 0.9:
                ms = []
                for _ in range(rng.randint(1, 7)):
                    label = rng.choice(['a', 'b', 'c', 'dd', 'E', 'label', 'value', 'x y'])
                    q = rng.random()
                    if q < 0.4:
                        ms.append(label)
                    elif q < 0.7:
                        ms.append(OD(rng.sample([('label', label), ('value', rng.randint(-300, 300))], 2)))
                    else:
                        a = rng.randint(-300, 300)
                        ms.append(OD(rng.sample([('label', label), ('value', [a, a + rng.randint(-3, 40)])], 2)))
                n[k] = ms
        return n
    if r < 0.75:
        n = OD([('class', rng.choice(['str', 'string']))])
        _maybe(rng, n, 'encoding', ['utf8', 'ascii', 'none'], 0.3)
        return n
    if r < 0.88:
        n = OD()
        keys = ['class', 'length', 'element-type']
        rng.shuffle(keys)
        for k in keys:
            if k == 'class':
                n[k] = 'array'
            elif k == 'length':
                n[k] = rng.choice([0, 1, 2, 16, 'dynamic', 'dynamic'])
            else:
                n[k] = raw_ft(rng, depth + 1)
        return n
    n = OD()
    keys = ['class', 'min-align', 'fields']
    rng.shuffle(keys)
    for k in keys:
        if k == 'class':
            n[k] = rng.choice(['struct', 'structure'])
        elif k == 'min-align':
            _maybe(rng, n, k, [1, 8, 16, 32])
        elif rng.random() < 0.85:
            if rng.random() < 0.08:
                n[k] = None
            else:
                f = OD()
                for i in range(rng.randint(0, 4)):
                    f[rng.choice(['a', 'b', 'fld', 'x1', '_u', 'class', 'fields', 'size'])] = raw_ft(rng, depth + 1)
                n[k] = f
    return n
