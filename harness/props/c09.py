"""C09: configurations violating a documented constraint are never accepted.

Proof: Props/C09.v on the REGENERATED schema terms (Gen/Schemas3.v, Gen/Schemas2.v, produced by
tools/yaml2coq.py on every run) with the Gallina Draft-7 validator of Front/JsonSchema.v.
Ties:
  c09_corr   - the Gallina validator (vm_compute) must give the verdict of python-jsonschema
               (through barectf's own _SchemaValidator/_RefResolver set-up) on every (schema id,
               instance) pair generated; this also validates the translator.  The `_refuted`
               witnesses of Props/C09.v are replayed on the real front end.
  c09_oracle - whole front end on the real code: one mutation operator per documented constraint,
               at every position of valid base documents (both dialects).
"""
from common import prepare


def run(ctx):
    prepare(ctx)
    from props import c09_corr, c09_oracle
    c09_corr.run(ctx)
    c09_oracle.run(ctx)
