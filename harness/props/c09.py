"""C09: configurations violating a documented constraint are never accepted.

Proof: Props/C09.v on the REGENERATED schema terms (Gen/Schemas3.v, Gen/Schemas2.v, produced by
tools/yaml2coq.py on every run) with the Gallina Draft-7 validator of Front/JsonSchema.v.
Ties:
  c09_corr   - the Gallina validator (vm_compute) must give the verdict of python-jsonschema
               (through barectf's own _SchemaValidator/_RefResolver set-up) on every (schema id,
               instance) pair generated; this also validates the translator.  The `_refuted`
               witnesses of Props/C09.v are replayed on the real front end.
  c09_oracle - whole front end on the real code: one mutation operator per documented constraint,
               at every position of valid base documents (both dialects).
"""
from common import prepare


LEVEL_NOTE = ('PROVED (forall, Coq, on the schema terms regenerated from /repo): fuel monotonicity, inversion of every keyword '
              '(den_sound), and `accepted by the final schema config/3/config => documented shape of every object of the effective '
              'configuration` (config_doc false), minus the constraints that are `_refuted` theorems with replayed witnesses. '
              'VALIDATED (correspondence, every run): Gallina validator + translator vs python-jsonschema as barectf sets it up. '
              'VALIDATED ONLY (oracle on the real code, c09_oracle): the constraints barectf checks in Python after schema validation '
              '(power-of-two alignment, duplicate/reserved members, nested structure/dynamic array, ID field widths, single default '
              'stream, unknown alias/clock/log level/include, cycles), the pre-expansion stages, and the whole barectf 2 dialect.')


def run(ctx):
    prepare(ctx)
    ctx.notes.insert(0, LEVEL_NOTE)
    from props import c09_corr, c09_oracle
    c09_corr.run(ctx)
    c09_oracle.run(ctx)
