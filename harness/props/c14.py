"""C14: generated code is strict ANSI C (and valid C++) with the documented API (partial).

Proof: Props/C14.v (C type table of the translated _ft_c_type vs the documented one; parameter
lists).  Tie + validation on the real code:
  * Gen/PyFuns.ft_c_type / loop_var_name vs the real functions on enumerated arguments (cases.v);
  * the generated files of random configurations compiled with gcc and clang
    (-ansi -pedantic-errors -Wall -Wextra -Werror -Wno-unused-function -Wno-unused-parameter),
    as C++ (g++ / clang++ -std=c++98 -pedantic-errors ...), the header alone in an empty
    translation unit (C and C++);
  * glue.c: after including the generated header, every public function is re-declared with the
    DOCUMENTED prototype -- per-stream / per-event prototypes printed by the Coq model
    Protos.doc_protos (vm_compute), fixed API prototypes taken from the [source,c] blocks of
    docs/modules/platform/pages/api.adoc and tracing-funcs/pages/index.adoc; a conflicting
    declaration is a compile error.  When only the documented-type glue fails and the glue printed
    with the generator's own type table compiles, the deviation is the S1 finding.
"""
import io
import os
import re
from concurrent.futures import ThreadPoolExecutor

import bt
from common import REPO, prepare, run_cases_v, sh
from props import c14cfg as G
from props.c13 import ambiguous

CFLAGS = ['-ansi', '-pedantic-errors', '-Wall', '-Wextra', '-Werror', '-Wno-unused-function', '-Wno-unused-parameter']
CXXFLAGS = ['-x', 'c++', '-std=c++98', '-pedantic-errors', '-Wall', '-Wextra', '-Werror', '-Wno-unused-function', '-Wno-unused-parameter']


def coq_str(s):
    return '[' + ';'.join(str(ord(c)) for c in s) + ']'


def is_signed_cls(c):
    return c in ('sint', 'signed-int', 'signed-integer', 'senum', 'signed-enum', 'signed-enumeration')


def ft_coq(ft):
    c = ft['class']
    if c in ('uint', 'unsigned-int', 'unsigned-integer', 'sint', 'signed-int', 'signed-integer'):
        return '(FInt %s %d %d)' % ('true' if is_signed_cls(c) else 'false', ft['size'], ft.get('alignment') or (8 if ft['size'] % 8 == 0 else 1))
    if 'enum' in c:
        return '(FEnum %s %d %d)' % ('true' if is_signed_cls(c) else 'false', ft['size'], ft.get('alignment') or (8 if ft['size'] % 8 == 0 else 1))
    if c == 'real':
        return '(FReal %d %d)' % (ft['size'], ft.get('alignment') or 8)
    if c in ('str', 'string'):
        return 'FStr'
    if c == 'static-array':
        return '(FSArr %d %s)' % (ft['length'], ft_coq(ft['element-field-type']))
    if c == 'dynamic-array':
        return '(FDArr %s)' % ft_coq(ft['element-field-type'])
    raise ValueError(c)


def has_misaligned_real(ft):
    c = ft['class']
    if c == 'real':
        return (ft.get('alignment') or 8) != ft['size']
    if c in ('static-array', 'dynamic-array'):
        return has_misaligned_real(ft['element-field-type'])
    return False


def struct_coq(st):
    return '[' + '; '.join('(%s, %s)' % (coq_str(list(m)[0]), ft_coq(list(m.values())[0]['field-type'])) for m in (st.get('members') or [])) + ']'


def opt_struct_coq(st):
    return '(Some %s)' % struct_coq(st) if st else 'None'


def cfg_coq(doc, iden):
    dsts = []
    for dn, d in doc['trace']['type']['data-stream-types'].items():
        erts = ['(mk_ert %s %s %s)' % (coq_str(en), opt_struct_coq(e.get('specific-context-field-type')), opt_struct_coq(e.get('payload-field-type')))
                for en, e in d['event-record-types'].items()]
        extra = d.get('packet-context-field-type-extra-members')
        dsts.append('(mk_dst %s %s %s [%s])' % (coq_str(dn), struct_coq({'members': extra}) if extra else '[]',
                                               opt_struct_coq(d.get('event-record-common-context-field-type')), '; '.join(erts)))
    return '(mk_cfg %s [%s])' % (coq_str(iden), '; '.join(dsts))


def doc_misaligned(doc):
    for d in doc['trace']['type']['data-stream-types'].values():
        sts = [{'members': d.get('packet-context-field-type-extra-members') or []}, d.get('event-record-common-context-field-type')]
        for e in d['event-record-types'].values():
            sts += [e.get('specific-context-field-type'), e.get('payload-field-type')]
        for st in sts:
            for m in (st or {}).get('members') or []:
                if has_misaligned_real(list(m.values())[0]['field-type']):
                    return True
    return False


def documented_fixed_protos():
    """Prototypes of the [source,c] blocks of the API documentation that do not depend on NAME."""
    protos = []
    for rel in ('docs/modules/platform/pages/api.adoc', 'docs/modules/tracing-funcs/pages/index.adoc'):
        with open(os.path.join(REPO, rel)) as f:
            txt = f.read()
        for blk in re.findall(r'\[source,c\]\n----\n(.*?)\n----', txt, re.S):
            blk = re.sub(r'\s*\n\s+', ' ', blk)
            for line in blk.split('\n'):
                line = line.strip()
                if re.match(r'^[a-z].*\bbarectf_\w+\(.*\);$', line) and 'NAME' not in line and '(*' not in line \
                        and 'my_stream' not in line and 'platform_linux' not in line:
                    if line not in protos:
                        protos.append(line)
    return protos


def parse_string_lists(out):
    """Every `= [ "..."%string; ... ] : list string` printed by coqc, in order."""
    res = []
    for m in re.finditer(r'=\s*(\[.*?\]|nil)\s*:\s*list string', out, re.S):
        res.append([s.replace('""', '"') for s in re.findall(r'"((?:[^"]|"")*)"%string', m.group(1))])
    return res


def real_ft(ftd):
    """barectf.config field type object for a YAML field type node (for the translator validation)."""
    bc = bt.bc
    c = ftd['class']
    if c == 'int':
        cls = bc.SignedIntegerFieldType if ftd['signed'] else bc.UnsignedIntegerFieldType
        return cls(ftd['size'], ftd['align'])
    if c == 'enum':
        cls = bc.SignedEnumerationFieldType if ftd['signed'] else bc.UnsignedEnumerationFieldType
        return cls(ftd['size'], ftd['align'], mappings={'a': bc.EnumerationFieldTypeMapping({bc.EnumerationFieldTypeMappingRange(0, 0)})})
    if c == 'real':
        return bc.RealFieldType(ftd['size'], ftd['align'])
    if c == 'str':
        return bc.StringFieldType()
    if c == 'sarr':
        return bc.StaticArrayFieldType(ftd['len'], real_ft(ftd['elt']))
    if c == 'darr':
        return bc.DynamicArrayFieldType(bc.UnsignedIntegerFieldType(32, 8), real_ft(ftd['elt']))
    raise ValueError(c)


def ftd_coq(d):
    c = d['class']
    if c == 'int':
        return '(FInt %s %d %d)' % ('true' if d['signed'] else 'false', d['size'], d['align'])
    if c == 'enum':
        return '(FEnum %s %d %d)' % ('true' if d['signed'] else 'false', d['size'], d['align'])
    if c == 'real':
        return '(FReal %d %d)' % (d['size'], d['align'])
    if c == 'str':
        return 'FStr'
    if c == 'sarr':
        return '(FSArr %d %s)' % (d['len'], ftd_coq(d['elt']))
    return '(FDArr %s)' % ftd_coq(d['elt'])


def compile_matrix(d, fp, glue_doc, glue_real, fixed):
    """Returns {label: (rc, output)}."""
    jobs = {}
    with open(os.path.join(d, 'hdr_only.c'), 'w') as f:
        f.write('#include "%s.h"\n' % fp)
    with open(os.path.join(d, 'bf_only.c'), 'w') as f:
        f.write('#include "%s-bitfield.h"\n' % fp)
    for name, lines in (('glue_doc.c', glue_doc), ('glue_real.c', glue_real)):
        with open(os.path.join(d, name), 'w') as f:
            f.write('#include "%s.h"\n/* documented prototypes */\n%s\n%s\n' % (fp, '\n'.join(fixed), '\n'.join(lines)))
    src = fp + '.c'
    plan = [('gcc C source', 'gcc', CFLAGS, src), ('clang C source', 'clang', CFLAGS, src),
            ('g++ C++ source', 'g++', CXXFLAGS, src), ('clang++ C++ source', 'clang++', CXXFLAGS, src),
            ('gcc header alone', 'gcc', CFLAGS, 'hdr_only.c'), ('clang header alone', 'clang', CFLAGS, 'hdr_only.c'),
            ('g++ header alone', 'g++', CXXFLAGS, 'hdr_only.c'), ('clang++ header alone', 'clang++', CXXFLAGS, 'hdr_only.c'),
            ('gcc bitfield header alone', 'gcc', CFLAGS, 'bf_only.c'),
            ('gcc glue (documented prototypes)', 'gcc', CFLAGS, 'glue_doc.c'), ('g++ glue (documented prototypes)', 'g++', CXXFLAGS, 'glue_doc.c'),
            ('gcc glue (generator type table)', 'gcc', CFLAGS, 'glue_real.c')]
    for label, cc, flags, s in plan:
        rc, out = sh([cc] + flags + ['-c', '-I', d, os.path.join(d, s), '-o', os.path.join(d, 'o_%s_%s.o' % (cc.replace('+', 'x'), s.replace('.', '_')))], cwd=d, timeout=120)
        jobs[label] = (rc, out)
    return jobs


def only_type_limits(out):
    errs = [l for l in out.splitlines() if 'error:' in l]
    return bool(errs) and all('type-limits' in l for l in errs)


COLLISION_STATIC = {'a': {'b_c': 8}, 'a_b': {'c': 16}}
COLLISION_TRACE = {'a': {'x_trace_y': 8}, 'a_trace_x': {'y': 16}}


def collision_doc(spec):
    dsts = {}
    for dn, erts in spec.items():
        dsts[dn] = {'event-record-types': {en: {'payload-field-type': {'class': 'struct', 'members': [
            {'x': {'field-type': {'class': 'uint', 'size': sz}}}]}} for en, sz in erts.items()}}
    return {'trace': {'type': {'native-byte-order': 'le', 'data-stream-types': dsts}}}


def run(ctx):
    prepare(ctx)
    rng = ctx.rng
    # ---- 1. translator validation: ft_c_type, loop_var_name
    cg = bt.bcgen._CodeGen(bt.simple_config())
    fts = []
    for signed in (False, True):
        for size in range(1, 65):
            fts.append({'class': 'int', 'signed': signed, 'size': size, 'align': rng.choice([1, 2, 8, 16, 32, 64])})
        for size in (1, 8, 9, 16, 17, 32, 33, 64):
            fts.append({'class': 'enum', 'signed': signed, 'size': size, 'align': rng.choice([1, 8, 64])})
    for size in (32, 64):
        for al in (1, 2, 4, 8, 16, 32, 64, 128):
            fts.append({'class': 'real', 'size': size, 'align': al})
    fts.append({'class': 'str'})
    base = list(fts)
    for _ in range(ctx.pick(200, 2000)):
        t = rng.choice(base)
        for _ in range(rng.randint(1, 3)):
            t = {'class': 'sarr', 'len': rng.randint(0, 5), 'elt': t} if rng.random() < 0.7 else {'class': 'darr', 'elt': t}
        fts.append(t)
    ct_cases = []
    for t in fts:
        for k in (False, True):
            ct_cases.append((t, k, str(cg._ft_c_type(real_ft(t), k))))
    lv_cases = [(lv, bt.bcgen._loop_var_name(lv)) for lv in list(range(0, 40)) + [99, 100, 1000, 12345]]
    # ---- 2. random configurations
    ncfg = ctx.pick(28, 200)
    items = []
    tries = 0
    for rd in G.replay_docs(ctx) or []:
        pfn = ((rd.get('options') or {}).get('code-generation') or {}).get('prefix', 'barectf')
        items.append((pfn if isinstance(pfn, str) else (pfn['identifier'], pfn['file-name']), rd, 'replay'))
        ncfg = 0
    while len(items) < ncfg and tries < ncfg * 5:
        tries += 1
        pf = rng.choice(['barectf', 'barectf', 'my', ('P_', 'pfile'), 'a_b'])
        doc = G.gen_config(rng, n_dst=(1, 3), n_ert=(1, 4), n_clk=(0, 2), prefix=pf, ansi_ctypes=True, byte_order=rng.choice(['native-le', 'trace-le', 'trace-be']),
                           natural_reals=(rng.random() < 0.6))
        if ambiguous(doc):
            continue
        items.append((pf, doc, 'random'))
    # S1 witness of C14_ctype_refuted: a 32-bit real with the default alignment (8)
    s1doc = {'trace': {'type': {'native-byte-order': 'le', 'data-stream-types': {'default': {'event-record-types': {'ev': {'payload-field-type': {
        'class': 'struct', 'members': [{'r': {'field-type': {'class': 'real', 'size': 32}}}]}}}}}}}}
    items.append(('barectf', s1doc, 'S1 witness'))
    zdoc = {'trace': {'type': {'native-byte-order': 'le', 'data-stream-types': {'default': {'event-record-types': {'ev': {'payload-field-type': {
        'class': 'struct', 'members': [{'z': {'field-type': {'class': 'static-array', 'length': 0, 'element-field-type': {'class': 'uint', 'size': 8}}}}]}}}}}}}}
    items.append(('barectf', zdoc, 'zero-length static array witness'))
    items.append(('barectf', collision_doc(COLLISION_STATIC), 'static collision'))
    items.append(('barectf', collision_doc(COLLISION_TRACE), 'trace collision'))
    gens = []
    for i, (pf, doc, kind) in enumerate(items):
        d = os.path.join(ctx.scratch, 'g%d' % i)
        os.makedirs(d, exist_ok=True)
        ytxt = G.yaml_text(doc)
        try:
            cfg = bt.barectf.configuration_from_file(io.StringIO(ytxt), True, [], False)
            files = bt.generate(cfg, d)
        except Exception as exc:   # noqa: BLE001
            ctx.corr_broken.append('C14 generator produced a configuration barectf rejects (%s): %s' % (kind, str(exc)[:200]))
            ctx.notes.append(ytxt[:1500])
            continue
        iden, fp = (pf + '_', pf) if isinstance(pf, str) else pf
        if 'options' not in doc:
            iden, fp = 'barectf_', 'barectf'
        gens.append(dict(i=i, dir=d, doc=doc, yaml=ytxt, iden=iden, fp=fp, kind=kind))
    # ---- 3. Coq: translator validation + documented prototypes for every configuration
    body = ['From Coq Require Import List NArith Bool String.', 'Import ListNotations.',
            'From BT.Front Require Import Prefix CTypes Protos ProtosProofs Ids.', 'From BT.Gen Require Import PyFuns.', 'Open Scope N_scope.',
            'Definition ostr_eqb (a : option str) (b : str) : bool := match a with Some x => str_eqb x b | None => false end.',
            'Definition ct_ok (c : ft * bool * str) : bool := ostr_eqb (option_map ctype_str (ft_c_type 12 (fst (fst c)) (snd (fst c)))) (snd c).',
            'Definition lv_ok (c : N * str) : bool := ostr_eqb (loop_var_name (fst c)) (snd c).',
            'Definition c_ct : list (ft * bool * str) := [%s].' % ';\n'.join('(%s, %s, %s)' % (ftd_coq(t), 'true' if k else 'false', coq_str(s)) for t, k, s in ct_cases),
            'Definition c_lv : list (N * str) := [%s].' % '; '.join('(%d, %s)' % (lv, coq_str(s)) for lv, s in lv_cases),
            'Eval vm_compute in (failing ct_ok 0%nat c_ct, failing lv_ok 0%nat c_lv).']
    for g in gens:
        term = cfg_coq(g['doc'], g['iden'])
        body.append('Eval vm_compute in (glue_lines %s).' % term)
        body.append('Eval vm_compute in (glue_lines_with real_c_type %s).' % term)
    rc, out = run_cases_v('c14_cases', '\n'.join(body) + '\n', ctx.scratch)
    m = re.search(r'=\s*\(\s*(\[.*?\]|nil)\s*,\s*(\[.*?\]|nil)\s*\)\s*:\s*list nat \* list nat', out, re.S)
    lists = parse_string_lists(out)
    tr_fail = None
    if rc != 0 or not m or len(lists) != 2 * len(gens):
        ctx.corr_broken.append('C14 model evaluation failed: %s' % out[-400:])
        # search for a concrete failing input anyway: the DOCUMENTED prototypes do not depend on the
        # translated generator functions (Front/Protos.v only), so the compile matrix can still run
        body2 = ['From Coq Require Import List NArith Bool String.', 'Import ListNotations.',
                 'From BT.Front Require Import Prefix CTypes Protos.', 'Open Scope N_scope.']
        for g in gens:
            body2.append('Eval vm_compute in (glue_lines %s).' % cfg_coq(g['doc'], g['iden']))
        rc2, out2 = run_cases_v('c14_cases_doc', '\n'.join(body2) + '\n', ctx.scratch)
        lists2 = parse_string_lists(out2)
        if rc2 != 0 or len(lists2) != len(gens):
            return
        lists = []
        for l in lists2:
            lists += [l, l]
        m = None
    tr_fail = [[int(t) for t in re.findall(r'\d+', g)] for g in (m.group(1), m.group(2))] if m else [[], []]
    if tr_fail[0]:
        c = ct_cases[tr_fail[0][0]]
        ctx.corr_broken.append('Gen/PyFuns.ft_c_type disagrees with the real _ft_c_type on %d cases, first %r' % (len(tr_fail[0]), c))
    if tr_fail[1]:
        ctx.corr_broken.append('Gen/PyFuns.loop_var_name disagrees with the real _loop_var_name, first %r' % (lv_cases[tr_fail[1][0]],))
    fixed_doc = documented_fixed_protos()
    if len(fixed_doc) < 10:
        ctx.corr_broken.append('C14: only %d fixed prototypes found in the documentation' % len(fixed_doc))
    for k, g in enumerate(gens):
        g['glue_doc'], g['glue_real'] = lists[2 * k], lists[2 * k + 1]
        g['fixed'] = [re.sub(r'\bbarectf_', g['iden'], p) for p in fixed_doc]

    def do(g):
        return g, compile_matrix(g['dir'], g['fp'], g['glue_doc'], g['glue_real'], g['fixed'])
    ncompiles = 0
    nfail = 0
    s1_seen = False
    zero_seen = []
    samples = []
    with ThreadPoolExecutor(max_workers=12) as ex:
        for g, res in ex.map(do, gens):
            ncompiles += len(res)
            replay = {'yaml': g['yaml'], 'kind': g['kind']}
            bad = {k: v for k, v in res.items() if v[0] != 0}
            if g['kind'] == 'static collision':
                if any('_serialize_er_a_b_c' in v[1] or '_er_size_a_b_c' in v[1] for v in bad.values()):
                    ctx.finding('C14-static-function-name-collision',
                                'data stream type a / event record type b_c and data stream type a_b / event record type c both generate the static functions _serialize_er_a_b_c and _er_size_a_b_c: the generated source does not compile',
                                dict(replay, compiler_output=next(iter(bad.values()))[1][-1200:]))
                elif bad:
                    ctx.violation('generated code does not compile (%s): %s' % (list(bad)[0], list(bad.values())[0][1][-300:]), replay)
                continue
            if g['kind'] == 'trace collision':
                if any('barectf_a_trace_x_trace_y' in v[1] for v in bad.values()):
                    ctx.finding('C14-trace-function-name-collision',
                                'data stream type a / event record type x_trace_y and data stream type a_trace_x / event record type y both generate the public function barectf_a_trace_x_trace_y: the generated header does not compile',
                                dict(replay, compiler_output=next(iter(bad.values()))[1][-1200:]))
                elif bad:
                    ctx.violation('generated code does not compile (%s): %s' % (list(bad)[0], list(bad.values())[0][1][-300:]), replay)
                continue
            rest = dict(bad)
            if doc_misaligned(g['doc']) and 'gcc glue (generator type table)' not in bad:
                gl = [k for k in rest if 'documented prototypes' in k]
                if gl:
                    # explained entirely by the type table deviation: the generator-table glue compiles
                    if not s1_seen:
                        ctx.finding('S1-real-ft-c-type-uint64',
                                    'a real field type whose alignment is not its size (e.g. size 32, default alignment 8) gets a uint64_t parameter; the documentation says float / double',
                                    dict(replay, compiler_output=rest[gl[0]][1][-1200:], documented_prototypes=g['glue_doc'], generator_prototypes=g['glue_real']))
                    s1_seen = True
                    for k in gl:
                        del rest[k]
            if 'length: 0' in g['yaml']:
                zl = [k for k in rest if only_type_limits(rest[k][1])]
                if zl:
                    if not zero_seen:
                        ctx.finding('C14-zero-length-static-array-diagnostic',
                                    'a static array field type of length 0 (allowed by the schema) generates `for (i = 0; i < (uint32_t) 0U; ++i)`: gcc -Wextra (-Wtype-limits) diagnoses the comparison',
                                    dict(replay, failing=sorted(zl), compiler_output=rest[zl[0]][1][-1500:]))
                    zero_seen.append(g['kind'])
                    for k in zl:
                        del rest[k]
            if rest:
                nfail += 1
                if nfail <= 4:
                    k0 = sorted(rest)[0]
                    ctx.violation('generated code is not accepted without diagnostics / does not match the documented prototypes (%s): %s' % (k0, rest[k0][1].strip()[-400:]),
                                  dict(replay, failing=sorted(rest), compiler_output=rest[k0][1][-2000:], documented_prototypes=g['glue_doc']))
            elif len(samples) < 3:
                samples.append({'prefix': g['iden'], 'documented_prototypes': g['glue_doc'][:3]})
    ctx.cov.update({
        'evaluations': ncompiles + len(ct_cases) + len(lv_cases),
        'distinct_nontrivial': len(gens),
        'rule': 'compiler runs (12 per configuration: gcc/clang C, g++/clang++ C++, header alone x4, bit-field header alone, glue with documented prototypes in C and C++, glue with the generator type table) over %d generated configurations; plus %d _ft_c_type and %d _loop_var_name cases evaluated on the Coq translation' % (len(gens), len(ct_cases), len(lv_cases)),
        'configurations_with_zero_length_array_diagnostic': len(zero_seen),
        'configurations_compiled': len(gens), 'compiler_runs': ncompiles, 'configurations_with_diagnostics': nfail,
        'ft_c_type_cases': len(ct_cases), 'loop_var_name_cases': len(lv_cases), 'translator_disagreements': tr_fail,
        'documented_fixed_prototypes': fixed_doc,
        'flags_c': ' '.join(CFLAGS), 'flags_cxx': ' '.join(CXXFLAGS),
        'validated_not_proved': 'absence of compiler diagnostics for every configuration is a statement about compilers: sampled',
        'samples': samples,
    })
