"""C09 whole-front-end oracle on the REAL code of /repo.

One mutation operator per documented constraint (docs/modules/yaml/pages/*.adoc), applied at every
position of valid base documents (barectf 3 and barectf 2 dialects, see c09_docs.py) where the
constrained object occurs.  A mutant is written to disk and loaded through
barectf.configuration_from_file.

  rejected with _ConfigurationParseError   -> fine
  rejected with another exception          -> still "not accepted" (counted as rejected_other; C10's business)
  accepted                                 -> C09 violation when the mutation reaches the effective
                                              configuration (effective_configuration_file differs from
                                              the base's) or is invisible there by nature (`certain`).
"""
import copy
import os
import shutil
import sys
import time

if __name__ == '__main__':
    sys.path.insert(0, os.path.dirname(os.path.dirname(os.path.abspath(__file__))))

from props import c09_docs as D
from props.c09_docs import MAIN, tget, tset, rename_key

WORKERS = 14

CODE_KEYWORDS = ['struct', 'event', 'env', 'typealias']           # in the docs list and in the code list
DOC_ONLY_KEYWORDS = ['int', 'float', 'void', '_Bool', 'const', 'unsigned']  # in the docs list only
BAD_IDENTS = ['9abc', 'a-b', '']
RESERVED_PC = ['packet_size', 'content_size', 'timestamp_begin', 'timestamp_end', 'events_discarded',
               'packet_seq_num']

WRONG = {
    'map': [5, 'abc', ['x']],
    'str': [5, ['x'], {'a': 1}],
    'bool': ['abc', 5, [True]],
    'int': ['abc', [1], 1.5],
    'seq': [5, {'a': 1}],
    'str|map': [5, ['x']],
    'ft': [5, ['x'], 1.5],
    'int|str': [[1], {'a': 1}, 1.5],
    'inc': [5, [5], {'a': 1}],
    'int|str-env': [[1], 1.5, {'a': 1}],
}

V3_SPEC = {
    'config': ({'options': 'map', 'trace': 'map'}, ['trace']),
    'options': ({'code-generation': 'map'}, []),
    'codegen': ({'prefix': 'str|map', 'header': 'map'}, []),
    'prefix-obj': ({'identifier': 'str', 'file-name': 'str'}, ['identifier', 'file-name']),
    'header': ({'identifier-prefix-definition': 'bool', 'default-data-stream-type-name-definition': 'bool'}, []),
    'trace': ({'type': 'map', 'environment': 'map', '$include': 'inc'}, ['type']),
    'trace-type': ({'native-byte-order': 'str', 'trace-byte-order': 'str', 'uuid': 'str',
                    '$field-type-aliases': 'map', '$log-level-aliases': 'map', '$features': 'map',
                    'clock-types': 'map', 'data-stream-types': 'map', '$include': 'inc'}, ['data-stream-types']),
    'tt-features': ({'magic-field-type': 'ft', 'uuid-field-type': 'ft', 'data-stream-type-id-field-type': 'ft'}, []),
    'clock-type': ({'frequency': 'int', 'offset': 'map', 'origin-is-unix-epoch': 'bool', 'precision': 'int',
                    'uuid': 'str', 'description': 'str', '$c-type': 'str', '$include': 'inc'}, []),
    'clock-offset': ({'seconds': 'int', 'cycles': 'int'}, []),
    'dst': ({'$is-default': 'bool', '$default-clock-type-name': 'str', '$features': 'map',
             'packet-context-field-type-extra-members': 'seq', 'event-record-common-context-field-type': 'ft',
             'event-record-types': 'map', '$include': 'inc'}, ['event-record-types']),
    'dst-features': ({'packet': 'map', 'event-record': 'map'}, []),
    'pkt-features': ({'total-size-field-type': 'ft', 'content-size-field-type': 'ft',
                      'beginning-timestamp-field-type': 'ft', 'end-timestamp-field-type': 'ft',
                      'discarded-event-records-counter-snapshot-field-type': 'ft',
                      'sequence-number-field-type': 'ft'}, []),
    'er-features': ({'type-id-field-type': 'ft', 'timestamp-field-type': 'ft'}, []),
    'ert': ({'log-level': 'int|str', 'specific-context-field-type': 'ft', 'payload-field-type': 'ft',
             '$include': 'inc'}, []),
}
V2_SPEC = {
    'config': ({'version': 'str', 'prefix': 'str', 'options': 'map', 'metadata': 'map'}, ['version', 'metadata']),
    'options': ({'gen-prefix-def': 'bool', 'gen-default-stream-def': 'bool'}, []),
    'metadata': ({'type-aliases': 'map', '$log-levels': 'map', 'log-levels': 'map', 'trace': 'map', 'env': 'map',
                  'clocks': 'map', 'streams': 'map', '$default-stream': 'str', '$include': 'inc'},
                 ['trace', 'streams']),
    'trace-type': ({'byte-order': 'str', 'uuid': 'str', 'packet-header-type': 'ft', '$include': 'inc'},
                   ['byte-order']),
    'clock-type': ({'freq': 'int', 'error-cycles': 'int', 'offset': 'map', 'absolute': 'bool',
                    'return-ctype': 'str', '$return-ctype': 'str', 'uuid': 'str', 'description': 'str',
                    '$include': 'inc'}, []),
    'clock-offset': ({'seconds': 'int', 'cycles': 'int'}, []),
    'dst': ({'$default': 'bool', 'packet-context-type': 'ft', 'event-header-type': 'ft',
             'event-context-type': 'ft', 'events': 'map', '$include': 'inc'}, ['packet-context-type', 'events']),
    'ert': ({'log-level': 'int|str', 'context-type': 'ft', 'payload-type': 'ft', '$include': 'inc'}, []),
}

V3_LIT_STRUCT = {'class': 'struct', 'members': [{'nested_a': {'field-type': {'class': 'uint', 'size': 8}}}]}
V3_LIT_DYN = {'class': 'dynamic-array', 'element-field-type': {'class': 'uint', 'size': 8}}
V3_LIT_U8 = {'class': 'uint', 'size': 8}
V2_LIT_STRUCT = {'class': 'struct', 'fields': {'nested_a': {'class': 'int', 'size': 8}}}
V2_LIT_DYN = {'class': 'array', 'length': 'dynamic', 'element-type': {'class': 'int', 'size': 8}}
V2_LIT_U8 = {'class': 'int', 'size': 8}


# ------------------------------------------------------------------ operators

class Op:
    __slots__ = ('constraint', 'variant', 'fn', 'certain', 'pos', 'repl', 'cell')

    def __init__(self, constraint, variant, fn, pos, certain=False, repl=None, cell=None):
        self.cell = cell
        self.constraint, self.variant, self.fn, self.pos, self.certain, self.repl = \
            constraint, variant, fn, pos, certain, repl


def _setter(pos, key, val):
    def fn(doc):
        tget(doc, pos.file, pos.path)[key] = copy.deepcopy(val)
    fn.touch = tuple(pos.path) + (key,)
    return fn


def _setter2(pos, key, key2, val):
    """Set pos[key][key2] (creating the intermediate mapping)."""
    def fn(doc):
        n = tget(doc, pos.file, pos.path)
        if not isinstance(n.get(key), dict):
            n[key] = {}
        n[key][key2] = copy.deepcopy(val)
    fn.touch = tuple(pos.path) + (key, key2)
    return fn


def _replacer(pos, val):
    def fn(doc):
        tset(doc, pos.file, pos.path, copy.deepcopy(val))
    fn.touch = tuple(pos.path)
    return fn


def _deleter(pos, key):
    def fn(doc):
        del tget(doc, pos.file, pos.path)[key]
    fn.touch = tuple(pos.path) + (key,)
    return fn


def _short(v):
    s = repr(v)
    return s if len(s) < 40 else s[:37] + '...'



# ------------------------------------------------------------------ every class a location accepts
# A constraint on a field type is tried with EVERY class (and every spelling of it) that the
# location accepts, not only with the class the base document happens to use there: violating
# literal field types (written directly, through an alias, and through `$inherit` of a valid alias
# plus the violating property) are put at every feature position, as array elements and as
# structure members.

V3_SPELL = {'uint': ['uint', 'unsigned-int', 'unsigned-integer'], 'sint': ['sint', 'signed-int', 'signed-integer'],
            'uenum': ['uenum', 'unsigned-enum', 'unsigned-enumeration'],
            'senum': ['senum', 'signed-enum', 'signed-enumeration'], 'real': ['real'], 'string': ['str', 'string']}
V2_SPELL = {'int': ['int', 'integer'], 'enum': ['enum', 'enumeration'], 'real': ['flt', 'float', 'floating-point'],
            'string': ['str', 'string']}
DEL = object()


def _align_viol(key):
    out = [('alignment', '%s=%d' % (key, v), key, v) for v in (3, 0, -1, 6)]
    out += [('wrong-type', '%s=%s' % (key, _short(w)), key, w) for w in ('8', [8])]
    out += [('integral-float', '%s=8.0' % key, key, 8.0)]
    return out


def v3_ft_base(spelling, family, size=16):
    n = {'class': spelling}
    if family in ('uint', 'sint', 'uenum', 'senum'):
        n['size'] = size
    if family in ('uenum', 'senum'):
        n['mappings'] = {'A': [0, [2, 5]]}
    if family == 'real':
        n['size'] = 32
    return n


def v3_ft_violations(family):
    """[(constraint, variant, property, value | DEL)] for a barectf 3 field type of this class family"""
    V = []
    if family in ('uint', 'sint', 'uenum', 'senum'):
        V += [('int-size', 'size=%d' % v, 'size', v) for v in (0, 65, -1, 128)]
        V += [('wrong-type', 'size=' + _short(w), 'size', w) for w in ('8', [8], 8.5, None, True)]
        V += [('integral-float', 'size=16.0', 'size', 16.0)]
        V += _align_viol('alignment')
        V += [('bad-enum-value', 'preferred-display-base=base7', 'preferred-display-base', 'base7'),
              ('wrong-type', 'preferred-display-base=16', 'preferred-display-base', 16),
              ('missing-required', 'size', 'size', DEL),
              ('unknown-property', 'zz-unknown', 'zz-unknown', 1)]
        if family in ('uenum', 'senum'):
            V += [('missing-required', 'mappings', 'mappings', DEL),
                  ('empty-mappings', 'mappings={}', 'mappings', {}),
                  ('empty-mappings', 'label=[]', 'mappings', {'A': []}),
                  ('wrong-type', 'mappings=5', 'mappings', 5),
                  ('wrong-type', 'label=5', 'mappings', {'A': 5}),
                  ('wrong-type', 'range=x', 'mappings', {'A': ['x']}),
                  ('wrong-type', 'range=[1]', 'mappings', {'A': [[1]]}),
                  ('wrong-type', 'range=[1,2,3]', 'mappings', {'A': [[1, 2, 3]]}),
                  ('integral-float', 'mapping value 1.0', 'mappings', {'A': [1.0]})]
        else:
            V += [('unknown-property', 'mappings-on-int', 'mappings', {'A': [1]})]
    elif family == 'real':
        V += [('real-size', 'size=%d' % v, 'size', v) for v in (16, 128, 0, 24)]
        V += [('wrong-type', 'size=str', 'size', '32'), ('integral-float', 'real size=32.0', 'size', 32.0)]
        V += _align_viol('alignment')
        V += [('missing-required', 'size', 'size', DEL),
              ('unknown-property', 'preferred-display-base-on-real', 'preferred-display-base', 'hex'),
              ('unknown-property', 'zz-unknown', 'zz-unknown', 1)]
    elif family == 'string':
        V += [('unknown-property', 'size-on-string', 'size', 8), ('unknown-property', 'alignment-on-string', 'alignment', 8),
              ('unknown-property', 'zz-unknown', 'zz-unknown', 1)]
    return V


def v2_ft_base(spelling, family):
    if family == 'int':
        return {'class': spelling, 'size': 16}
    if family == 'enum':
        return {'class': spelling, 'value-type': {'class': 'int', 'size': 8}, 'members': ['A', {'label': 'B', 'value': 5}]}
    if family == 'real':
        return {'class': spelling, 'size': {'exp': 8, 'mant': 24}}
    return {'class': spelling}


def v2_ft_violations(family):
    V = []
    if family == 'int':
        V += [('int-size', 'size=%d' % v, 'size', v) for v in (0, 65, -1)]
        V += [('wrong-type', 'size=' + _short(w), 'size', w) for w in ('8', [8], 8.5)]
        V += [('integral-float', 'size=16.0', 'size', 16.0)] + _align_viol('align')
        V += [('bad-enum-value', 'base=base7', 'base', 'base7'), ('wrong-type', 'signed=5', 'signed', 5),
              ('bad-enum-value', 'byte-order=middle', 'byte-order', 'middle'),
              ('missing-required', 'size', 'size', DEL), ('unknown-property', 'zz-unknown', 'zz-unknown', 1)]
    elif family == 'enum':
        V += [('missing-required', 'value-type', 'value-type', DEL),
              ('int-size', 'value-type.size=65', 'value-type', {'class': 'int', 'size': 65}),
              ('wrong-class', 'value-type=string', 'value-type', {'class': 'string'}),
              ('empty-mappings', 'members=[]', 'members', []), ('wrong-type', 'member=5', 'members', [5]),
              ('missing-required', 'member.value', 'members', [{'label': 'A'}]),
              ('unknown-property', 'zz-unknown', 'zz-unknown', 1)]
    elif family == 'real':
        V += [('real-size', 'size=5+11', 'size', {'exp': 5, 'mant': 11}), ('wrong-type', 'size=32', 'size', 32),
              ('missing-required', 'size', 'size', DEL)] + _align_viol('align')
        V += [('unknown-property', 'zz-unknown', 'zz-unknown', 1)]
    else:
        V += [('unknown-property', 'size-on-string', 'size', 8), ('bad-enum-value', 'encoding=latin1', 'encoding', 'latin1'),
              ('unknown-property', 'zz-unknown', 'zz-unknown', 1)]
    return V


def apply_violation(base, prop, val):
    n = copy.deepcopy(base)
    if val is DEL:
        n.pop(prop, None)
    else:
        n[prop] = copy.deepcopy(val)
    return n


def _flow(n):
    """one-line YAML text of a small tree (for messages)"""
    return D.yaml.safe_dump(n, default_flow_style=True, width=10000, sort_keys=False).strip()


class Gen:
    """Generates the operators of one base document."""

    def __init__(self, base):
        self.base = base
        self.v3 = base.dialect == 3
        self.ops = []
        self.masked = 0
        self.aliases_key = '$field-type-aliases' if self.v3 else 'type-aliases'
        self.elem_key = 'element-field-type' if self.v3 else 'element-type'
        self.members_key = 'members' if self.v3 else 'fields'
        self.align_key = 'alignment' if self.v3 else 'align'
        self.minalign_key = 'minimum-alignment' if self.v3 else 'min-align'
        self.inh_keys = ('$inherit',) if self.v3 else ('$inherit', 'inherit')
        self.lit_struct = V3_LIT_STRUCT if self.v3 else V2_LIT_STRUCT
        self.lit_dyn = V3_LIT_DYN if self.v3 else V2_LIT_DYN
        self.lit_u8 = V3_LIT_U8 if self.v3 else V2_LIT_U8
        # path of the trace type / metadata object that holds the alias map of the root file
        self.alias_home = ('trace', 'type') if self.v3 else ('metadata',)
        al = D.doc_aliases(base, base.dialect)
        self.struct_alias = None
        for k in sorted(al):
            if D.resolve_class(al[k], al, base.dialect) == 'struct' and k in self._own_aliases():
                self.struct_alias = k
                break

    def _own_aliases(self):
        res = set()
        for fn, tree in self.base.doc.items():
            for _, n in D.generic_walk(tree):
                if isinstance(n, dict) and isinstance(n.get(self.aliases_key), dict):
                    res |= set(n[self.aliases_key])
        return res

    def add(self, constraint, variant, fn, pos, certain=False, repl=None, cell=None):
        touch = getattr(fn, 'touch', None)
        if pos.file != MAIN and touch is not None and self.overridden(pos.file, touch):
            self.masked += 1      # an overlay sets the same property: not an unambiguous violation
            return
        self.ops.append(Op(constraint, variant, fn, pos, certain, repl, cell))

    def _key_elsewhere(self, key):
        """True when an inclusion file of this document has a property named `key`."""
        for fn, tree in self.base.doc.items():
            if fn == MAIN:
                continue
            for _, n in D.generic_walk(tree):
                if isinstance(n, dict) and key in n:
                    return True
        return False

    def node(self, pos):
        return tget(self.base.doc, pos.file, pos.path)

    def _includers(self):
        """{included file: [(including file, path of the including object)]} of the base document."""
        if not hasattr(self, '_inc'):
            self._inc = {}
            for fn, tree in self.base.doc.items():
                for path, n in D.generic_walk(tree):
                    if isinstance(n, dict) and '$include' in n:
                        v = n['$include']
                        for f in ([v] if isinstance(v, str) else v):
                            self._inc.setdefault(f, []).append((fn, path))
        return self._inc

    def overridden(self, file, path, depth=0):
        """True when a node of an inclusion file is masked by / merged with a node of an overlay
        (the including object, transitively), i.e. a mutation there may not reach the effective
        configuration."""
        if depth > 6:
            return False
        for g, q in self._includers().get(file, []):
            try:
                tget(self.base.doc, g, q + tuple(path))
                return True
            except (KeyError, IndexError, TypeError):
                pass
            if self.overridden(g, q + tuple(path), depth + 1):
                return True
        return False

    # -- helpers that extend the root file's alias map
    def _add_aliases(self, doc, new):
        home = tget(doc, MAIN, self.alias_home)
        if not isinstance(home.get(self.aliases_key), dict):
            home[self.aliases_key] = {}
        home[self.aliases_key].update(copy.deepcopy(new))

    # -- field type nodes
    def ft_ops(self, p):
        n = self.node(p)
        inh = p.inh
        add = self.add
        add('unknown-property', 'ft:%s' % p.cls, _setter(p, 'zz-unknown', 1), p, certain=True)
        if 'class' in n:
            add('wrong-type', 'class=5', _setter(p, 'class', 5), p)
            add('wrong-type', 'class=[..]', _setter(p, 'class', ['uint']), p)
            add('unknown-class', 'class=integer8', _setter(p, 'class', 'integer8'), p)
            if not inh:
                add('missing-required', 'class', _deleter(p, 'class'), p)
        for ik in self.inh_keys:
            if ik in n:
                cname = {'uint': 'uint', 'sint': 'sint', 'uenum': 'uenum', 'senum': 'senum', 'real': 'real',
                         'string': 'str', 'sarray': 'static-array', 'darray': 'dynamic-array', 'struct': 'struct',
                         'int': 'int', 'enum': 'enum', 'array': 'array'}.get(p.cls, 'struct')
                if not self.v3 and p.cls == 'real':
                    cname = 'float'
                if not self.v3 and p.cls in ('sarray', 'darray'):
                    cname = 'array'
                add('class-and-inherit-both', ik, _setter(p, 'class', cname), p)
                add('wrong-type', ik + '=5', _setter(p, ik, 5), p)
                add('inherit-value-not-a-string', ik + '=map', _setter(p, ik, self.lit_u8), p)
                add('unknown-alias', ik, _setter(p, ik, 'no-such-alias'), p)
        # the property holding the field type gets a value of a wrong kind
        for w in WRONG['ft']:
            add('wrong-type', 'field-type=' + _short(w), _replacer(p, w), p)
        add('unknown-alias', 'ft->name', _replacer(p, 'no-such-alias'), p)
        c = p.cls
        if c in ('uint', 'sint', 'uenum', 'senum', 'int'):
            for v in (0, 65, -1):
                add('int-size', 'size=%d' % v, _setter(p, 'size', v), p)
            for w in ('8', [8], 8.5):
                add('wrong-type', 'size=' + _short(w), _setter(p, 'size', w), p)
            fsz = float(n['size']) if isinstance(n.get('size'), int) else 8.0
            add('integral-float', 'size=%r' % fsz, _setter(p, 'size', fsz), p)
            self.align_ops(p, self.align_key)
            bk = 'preferred-display-base' if self.v3 else 'base'
            add('bad-enum-value', bk + '=base7', _setter(p, bk, 'base7'), p)
            add('wrong-type', bk + '=16', _setter(p, bk, 16), p)
            if 'size' in n and not inh:
                add('missing-required', 'size', _deleter(p, 'size'), p)
            if not self.v3:
                add('wrong-type', 'signed=abc', _setter(p, 'signed', 'abc'), p)
                add('wrong-type', 'signed=5', _setter(p, 'signed', 5), p)
                add('bad-enum-value', 'byte-order=middle', _setter(p, 'byte-order', 'middle'), p)
                add('wrong-type', 'byte-order=5', _setter(p, 'byte-order', 5), p)
                add('bad-enum-value', 'encoding=latin1', _setter(p, 'encoding', 'latin1'), p)
                add('wrong-type', 'property-mappings=5', _setter(p, 'property-mappings', 5), p)
                add('wrong-type', 'property-mappings=[5]', _setter(p, 'property-mappings', [5]), p)
                add('bad-enum-value', 'property-mappings.type=foo',
                    _setter(p, 'property-mappings', [{'type': 'foo', 'name': 'some_clock', 'property': 'value'}]), p)
                add('missing-required', 'property-mappings.name',
                    _setter(p, 'property-mappings', [{'type': 'clock', 'property': 'value'}]), p)
        if c in ('uint', 'sint') and self.v3:
            add('unknown-property', 'mappings-on-int', _setter(p, 'mappings', {'A': [1]}), p, certain=True)
        if c in ('uenum', 'senum') and 'mappings' in n and not inh:
            add('missing-required', 'mappings', _deleter(p, 'mappings'), p)
            add('empty-mappings', 'mappings={}', _setter(p, 'mappings', {}), p)
            lab = list(n['mappings'])[0]

            def setlab(val, lab=lab):
                def fn(doc):
                    tget(doc, p.file, p.path)['mappings'][lab] = val
                return fn
            add('empty-mappings', 'label=[]', setlab([]), p)
            add('wrong-type', 'mappings=[1,2]', _setter(p, 'mappings', [1, 2]), p)
            add('wrong-type', 'mappings=5', _setter(p, 'mappings', 5), p)
            add('wrong-type', 'label=5', setlab(5), p)
            add('wrong-type', 'range=x', setlab(['x']), p)
            add('wrong-type', 'range=[1]', setlab([[1]]), p)
            add('wrong-type', 'range=[1,2,3]', setlab([[1, 2, 3]]), p)
            add('integral-float', 'mapping value 1.0', setlab([1.0]), p)
            add('integral-float', 'mapping range [1.0, 2.0]', setlab([[1.0, 2.0]]), p)
        if c == 'enum' and not inh:  # v2
            if 'value-type' in n:
                add('missing-required', 'value-type', _deleter(p, 'value-type'), p)
                add('wrong-class', 'value-type=float',
                    _setter(p, 'value-type', {'class': 'float', 'size': {'exp': 8, 'mant': 24}}), p)
                add('wrong-class', 'value-type=string', _setter(p, 'value-type', {'class': 'string'}), p)
                add('wrong-type', 'value-type=5', _setter(p, 'value-type', 5), p)
            if 'members' in n:
                add('empty-mappings', 'members=[]', _setter(p, 'members', []), p)
                add('wrong-type', 'members=5', _setter(p, 'members', 5), p)
                add('wrong-type', 'members={}', _setter(p, 'members', {'a': 1}), p)
                add('wrong-type', 'member=5', _setter(p, 'members', [5]), p)
                add('missing-required', 'member.value', _setter(p, 'members', [{'label': 'A'}]), p)
                add('missing-required', 'member.label', _setter(p, 'members', [{'value': 1}]), p)
                add('wrong-type', 'member.value=x', _setter(p, 'members', [{'label': 'A', 'value': 'x'}]), p)
                add('wrong-type', 'member.value=[1,2,3]', _setter(p, 'members', [{'label': 'A', 'value': [1, 2, 3]}]), p)
                add('integral-float', 'member.value=1.0', _setter(p, 'members', [{'label': 'A', 'value': 1.0}]), p)
                add('integral-float', 'member.value=[1.0,2.0]', _setter(p, 'members', [{'label': 'A', 'value': [1.0, 2.0]}]), p)
                add('unknown-property', 'enum-member', _setter(p, 'members', [{'label': 'A', 'value': 1, 'zz': 2}]),
                    p, certain=True)
        if c == 'real':
            if self.v3:
                for v in (16, 128, 0, 24):
                    add('real-size', 'size=%d' % v, _setter(p, 'size', v), p)
                add('wrong-type', 'size=str', _setter(p, 'size', '32'), p)
                add('integral-float', 'real size=%r' % float(n.get('size', 32)), _setter(p, 'size', float(n.get('size', 32))), p)
                add('unknown-property', 'preferred-display-base-on-real',
                    _setter(p, 'preferred-display-base', 'hex'), p, certain=True)
            else:
                for v in ({'exp': 5, 'mant': 11}, {'exp': 15, 'mant': 113}, {'exp': 8, 'mant': 53}, {'exp': 0, 'mant': 0}):
                    add('real-size', 'size=%d+%d' % (v['exp'], v['mant']), _setter(p, 'size', v), p)
                add('wrong-type', 'size=32', _setter(p, 'size', 32), p)
                add('integral-float', 'real size exp=8.0 mant=24.0', _setter(p, 'size', {'exp': 8.0, 'mant': 24.0}), p)
                add('missing-required', 'size.mant', _setter(p, 'size', {'exp': 8}), p)
                add('unknown-property', 'size.zz', _setter(p, 'size', {'exp': 8, 'mant': 24, 'zz': 1}), p, certain=True)
                add('bad-enum-value', 'byte-order=middle', _setter(p, 'byte-order', 'middle'), p)
            self.align_ops(p, self.align_key)
            if 'size' in n and not inh:
                add('missing-required', 'size', _deleter(p, 'size'), p)
        if c == 'string':
            add('unknown-property', 'size-on-string', _setter(p, 'size', 8), p, certain=True)
            if not self.v3:
                add('bad-enum-value', 'encoding=latin1', _setter(p, 'encoding', 'latin1'), p)
                add('wrong-type', 'encoding=5', _setter(p, 'encoding', 5), p)
        if c in ('sarray', 'darray'):
            ek = self.elem_key
            if c == 'sarray':
                for v in (-1, -5):
                    add('negative-length', 'length=%d' % v, _setter(p, 'length', v), p)
                for w in (('3', [3], 2.5) if self.v3 else ('static', [3], 2.5)):
                    add('wrong-type', 'length=' + _short(w), _setter(p, 'length', w), p)
                if 'length' in n and not inh:
                    add('missing-required', 'length', _deleter(p, 'length'), p)
                flen = float(n['length']) if isinstance(n.get('length'), int) else 2.0
                add('integral-float', 'length=%r' % flen, _setter(p, 'length', flen), p)
            elif self.v3:
                add('unknown-property', 'length-on-dynamic-array', _setter(p, 'length', 3), p, certain=True)
            if ek in n and not inh:
                add('missing-required', ek, _deleter(p, ek), p)
            add('nested-structure', 'element=struct', _setter(p, ek, self.lit_struct), p)
            add('nested-structure', 'element=empty-struct', _setter(p, ek, {'class': 'struct'}), p)
            add('nested-dynamic-array', 'element=dynamic-array', _setter(p, ek, self.lit_dyn), p)
            if self.struct_alias:
                add('nested-structure', 'element=alias-of-struct', _setter(p, ek, self.struct_alias), p)

                def dyn_alias(doc, p=p, ek=ek):
                    self._add_aliases(doc, {'zz_dyn': self.lit_dyn})
                    tget(doc, p.file, p.path)[ek] = 'zz_dyn'
                add('nested-dynamic-array', 'element=alias-of-dynamic-array', dyn_alias, p)
            for w in WRONG['ft']:
                add('wrong-type', ek + '=' + _short(w), _setter(p, ek, w), p)
            if not inh:
                def put_elem(doc, val, ek=ek):
                    tget(doc, p.file, p.path)[ek] = val
                fams = ('uint', 'sint', 'uenum', 'senum', 'real', 'string') if self.v3 else ('int', 'enum', 'real', 'string')
                epos = D.Pos(p.file, p.path, p.kind, p.loc + ('>dyn-elem' if c == 'darray' else '>elem'), cls=None)
                self.class_variant_ops(epos, put_elem, fams, ek, forms=('literal', 'alias'), control=False,
                                       touch=tuple(p.path) + (ek,), coarse=True)
        if c == 'struct':
            self.align_ops(p, self.minalign_key)
            mk = self.members_key
            for w in (([{'a': 1}][0], 5, 'abc') if self.v3 else (['a'], 5, 'abc')):
                add('wrong-type', mk + '=' + _short(w), _setter(p, mk, w), p)

    def align_ops(self, p, key):
        for v in (3, 0, -1, 6):
            self.add('alignment', '%s=%d' % (key, v), _setter(p, key, v), p)
        for w in ('8', [8]):
            self.add('wrong-type', '%s=%s' % (key, _short(w)), _setter(p, key, w), p)
        for w in (8.0, 1.0, 16.0, 0.0):
            self.add('integral-float', '%s=%r' % (key, w), _setter(p, key, w), p)

    # -- references to aliases (strings)
    def ref_ops(self, p):
        add = self.add
        add('unknown-alias', 'ref', _replacer(p, 'no-such-alias'), p)
        kind = len(self.ops) % 5

        def cyc(doc, kind=kind, p=p):
            if kind == 0:
                self._add_aliases(doc, {'cyc_a': 'cyc_b', 'cyc_b': 'cyc_a'})
                tset(doc, p.file, p.path, 'cyc_a')
            elif kind == 1:
                self._add_aliases(doc, {'cyc_s': 'cyc_s'})
                tset(doc, p.file, p.path, 'cyc_s')
            elif kind == 2:
                self._add_aliases(doc, {'cyc_a': 'cyc_b', 'cyc_b': 'cyc_c', 'cyc_c': 'cyc_a'})
                tset(doc, p.file, p.path, 'cyc_b')
            elif kind == 3:
                ek = self.elem_key
                arr = {'class': 'static-array' if self.v3 else 'array', 'length': 2, ek: 'cyc_e'}
                self._add_aliases(doc, {'cyc_e': arr})
                tset(doc, p.file, p.path, 'cyc_e')
            else:
                mk = self.members_key
                st = {'class': 'struct', mk: ([{'m': 'cyc_m'}] if self.v3 else {'m': 'cyc_m'})}
                self._add_aliases(doc, {'cyc_m': st})
                tset(doc, p.file, p.path, 'cyc_m')
        add('alias-cycle', ['a->b->a', 'self', 'a->b->c->a', 'array-element-self', 'struct-member-self'][kind], cyc, p)
        if p.loc.endswith('alias') and len(p.path) >= 2 and p.path[-2] == self.aliases_key:
            # alias of alias:  X: Y   -> make Y: X
            me, target = p.path[-1], p.name

            def back(doc, me=me, target=target):
                for fn in sorted(doc):
                    for _, n in D.generic_walk(doc[fn]):
                        if isinstance(n, dict) and isinstance(n.get(self.aliases_key), dict) and target in n[self.aliases_key]:
                            n[self.aliases_key][target] = me
                            return
                self._add_aliases(doc, {target: me})   # target lives in a package file: shadow it
            add('alias-cycle', 'existing-alias-points-back', back, p)

    def inherit_ref_ops(self, p):
        kind = len(self.ops) % 3
        ik = p.path[-1]

        def cyc(doc, kind=kind):
            if kind == 0:
                self._add_aliases(doc, {'cyc_i': {ik: 'cyc_j'}, 'cyc_j': {ik: 'cyc_i'}})
                tset(doc, p.file, p.path, 'cyc_i')
            elif kind == 1:
                self._add_aliases(doc, {'cyc_t': {ik: 'cyc_t'}})
                tset(doc, p.file, p.path, 'cyc_t')
            else:
                self._add_aliases(doc, {'cyc_i': {ik: 'cyc_j', 'size': 8}, 'cyc_j': {ik: 'cyc_k'},
                                        'cyc_k': {ik: 'cyc_i', 'class': 'uint' if self.v3 else 'int'}})
                tset(doc, p.file, p.path, 'cyc_i')
        self.add('inheritance-cycle', ['i->j->i', 'self', 'i->j->k->i'][kind], cyc, p)

    # -- structure members
    def members_ops(self, p):
        n = self.node(p)
        add = self.add
        parent = tget(self.base.doc, p.file, p.path[:-1])
        overlay = isinstance(parent, dict) and any(k in parent for k in self.inh_keys)
        names = [list(e)[0] for e in n] if self.v3 else list(n)
        if not names:
            return
        first = names[0]

        def rename(new):
            # a NEW member with the bad name (renaming an existing one could remove a feature)
            def fn(doc):
                m = tget(doc, p.file, p.path)
                if self.v3:
                    m.append({new: {'field-type': copy.deepcopy(V3_LIT_U8)}})
                else:
                    m[new] = copy.deepcopy(V2_LIT_U8)
            fn.touch = tuple(p.path) + ((len(n),) if self.v3 else (new,))
            return fn
        def put_member(doc, val):
            m = tget(doc, p.file, p.path)
            if self.v3:
                m.append({'zz_member': {'field-type': val}})
            else:
                m['zz_member'] = val
        put_member.touch = tuple(p.path) + ((len(n),) if self.v3 else ('zz_member',))
        fams = ('uint', 'sint', 'uenum', 'senum', 'real', 'string') if self.v3 else ('int', 'enum', 'real', 'string')
        mpos = D.Pos(p.file, p.path, p.kind, p.loc + '>member', cls=None)
        self.class_variant_ops(mpos, put_member, fams, 'member zz_member', forms=('literal', 'inherit'), control=False,
                               touch=put_member.touch, coarse=True)
        for kw in CODE_KEYWORDS + BAD_IDENTS:
            add('invalid-identifier', 'member=%r' % kw, rename(kw), p)
        for kw in DOC_ONLY_KEYWORDS:
            add('invalid-identifier-doc-keyword', 'member=%r' % kw, rename(kw), p)
        if self.v3:
            def app(val):
                def fn(doc):
                    tget(doc, p.file, p.path).append(copy.deepcopy(val))
                return fn
            for w in (5, 'abc', ['a']):
                add('wrong-type', 'member-entry=' + _short(w), app(w), p)
            add('member-entry-not-single', 'two-keys',
                app({'m_one': {'field-type': V3_LIT_U8}, 'm_two': {'field-type': V3_LIT_U8}}), p)
            add('member-entry-not-single', 'empty', app({}), p)
            if not overlay:
                add('duplicate-member', 'copy-of-first', app(n[0]), p)
                add('duplicate-member', 'same-name-other-type', app({first: {'field-type': V3_LIT_U8}}), p)
                if self._own_aliases():
                    al = sorted(self._own_aliases())[0]
                    add('duplicate-member', 'same-name-via-alias', app({first: al}), p)
            else:
                # overlay members are merged by name: a duplicate of a *new* name inside the overlay
                # list is merged too, so only the base/overlay duplicate can exist: not expressible
                pass
            if p.loc.endswith('pcx'):
                for r in RESERVED_PC:
                    add('reserved-member', r, app({r: {'field-type': V3_LIT_U8}}), p)
        else:
            # barectf 2: `fields` is a YAML mapping; a duplicate member can only be written as a
            # duplicate YAML key (text level)
            def dup(doc):
                tget(doc, p.file, p.path)['ZZDUPKEYZZ'] = copy.deepcopy(V2_LIT_U8)
            add('duplicate-member-yaml-key', 'fields', dup, p, repl=('ZZDUPKEYZZ', first))
            add('wrong-type', 'field=5', _setter(p, first, 5), p)

    def member_entry_ops(self, p):
        add = self.add
        if self.v3:
            name = p.name
            pp = Dpos(p.file, p.path)   # the single-entry mapping
            add('nested-structure', 'member=struct', _setter(pp, name, {'field-type': V3_LIT_STRUCT}), p)
            if self.struct_alias:
                add('nested-structure', 'member=alias-of-struct', _setter(pp, name, self.struct_alias), p)
                add('nested-structure', 'member.field-type=alias-of-struct',
                    _setter(pp, name, {'field-type': self.struct_alias}), p)
            for w in (5, ['x']):
                add('wrong-type', 'member-value=' + _short(w), _setter(pp, name, w), p)
        else:
            add('nested-structure', 'field=struct', _replacer(p, V2_LIT_STRUCT), p)
            if self.struct_alias:
                add('nested-structure', 'field=alias-of-struct', _replacer(p, self.struct_alias), p)

    def member_obj_ops(self, p):
        n = self.node(p)
        if 'field-type' in n:
            self.add('missing-required', 'member.field-type', _deleter(p, 'field-type'), p)
        self.add('unknown-property', 'member-object', _setter(p, 'zz-unknown', 1), p, certain=True)

    # -- includable objects
    def include_ops(self, p):
        n = self.node(p)
        kind = p.cls
        add = self.add
        cur = n.get('$include')
        cur_list = [cur] if isinstance(cur, str) else list(cur or [])
        add('unknown-include-file', kind, _setter(p, '$include', cur_list + ['no-such-file.yaml']), p, certain=True)
        if not cur_list:
            add('unknown-include-file', kind + ':string-form', _setter(p, '$include', 'no-such-file.yaml'), p, certain=True)
        for w in WRONG['inc']:
            add('wrong-type', '$include=' + _short(w), _setter(p, '$include', w), p)
        cyc_name = 'zz-cyc-%s.yaml' % kind
        cyc2_name = 'zz-cyc2-%s.yaml' % kind

        def self_cycle(doc):
            doc[cyc_name] = {'$include': [cyc_name]}
            tget(doc, p.file, p.path)['$include'] = cur_list + [cyc_name]

        def mutual_cycle(doc):
            doc[cyc_name] = {'$include': [cyc2_name]}
            doc[cyc2_name] = {'$include': cyc_name}
            tget(doc, p.file, p.path)['$include'] = cur_list + [cyc_name]
        add('inclusion-cycle', kind + ':new-file-includes-itself', self_cycle, p, certain=True)
        add('inclusion-cycle', kind + ':two-files', mutual_cycle, p, certain=True)
        if p.file != MAIN and not p.path:
            def own(doc):
                tget(doc, p.file, p.path)['$include'] = cur_list + [p.file]
            add('inclusion-cycle', kind + ':existing-file-includes-itself', own, p, certain=True)

    # -- generic objects
    def object_ops(self, p):
        spec = (V3_SPEC if self.v3 else V2_SPEC).get(p.kind)
        if spec is None:
            return
        n = self.node(p)
        props, req = spec
        self.add('unknown-property', p.kind, _setter(p, 'zz-unknown', 1), p, certain=True)
        for k, t in sorted(props.items()):
            if k == '$include':
                continue     # see include_ops
            if k not in n and p.kind in ('trace-type', 'metadata', 'clock-type') and k in (
                    'trace-byte-order', 'native-byte-order', 'log-levels', '$log-levels', 'return-ctype', '$return-ctype'):
                continue     # exclusive pairs: handled below
            for w in WRONG[t]:
                self.add('wrong-type', '%s.%s=%s' % (p.kind, k, _short(w)), _setter(p, k, w), p)
        if p.file == MAIN:
            for k in req:
                # only where no inclusion file can supply the property instead
                if k in n and not self._key_elsewhere(k):
                    self.add('missing-required', '%s.%s' % (p.kind, k), _deleter(p, k), p)

    def value_ops(self, p):
        """Documented value constraints of the non-field-type objects."""
        n = self.node(p)
        add = self.add
        k = p.kind
        v3 = self.v3
        if k == 'trace-type':
            bo = [x for x in (('native-byte-order', 'trace-byte-order') if v3 else ('byte-order',)) if x in n]
            for b in bo:
                add('bad-enum-value', b + '=middle-endian', _setter(p, b, 'middle-endian'), p)
                if v3:
                    other = 'trace-byte-order' if b == 'native-byte-order' else 'native-byte-order'
                    add('both-byte-orders', other, _setter(p, other, 'le'), p)
                if p.file == MAIN:
                    add('missing-required', 'byte-order', _deleter(p, b), p)
            add('bad-uuid', 'trace-type', _setter(p, 'uuid', 'not-a-uuid'), p)
            add('bad-uuid', 'trace-type:upper', _setter(p, 'uuid', D.UUID_A.upper().replace('E', 'G')), p)
        if k == 'dsts' and p.file == MAIN and not self._key_elsewhere(p.path[-1]):
            add('empty-collection', 'data-stream-types={}', _replacer(p, {}), p, certain=True)
        if k == 'erts' and p.file == MAIN and not self._key_elsewhere(p.path[-1]):
            add('empty-collection', 'event-record-types={}', _replacer(p, {}), p, certain=True)
        if k in ('dsts', 'erts', 'clock-types'):
            what = {'dsts': 'dst', 'erts': 'ert', 'clock-types': 'clock-type'}[k]
            first = sorted(n)[0]
            for kw in CODE_KEYWORDS[:2] + BAD_IDENTS:
                add('invalid-identifier', '%s=%r' % (what, kw), self._rename_named(p, first, kw, what), p)
            for kw in DOC_ONLY_KEYWORDS[:3]:
                add('invalid-identifier-doc-keyword', '%s=%r' % (what, kw), self._rename_named(p, first, kw, what), p)
        if k == 'env':
            first = list(n)[0]
            for w in WRONG['int|str-env']:
                add('wrong-type', 'env-value=' + _short(w), _setter(p, first, w), p)
            add('integral-float', 'env-value=1.0', _setter(p, first, 1.0), p)

            def ren(new):
                def fn(doc):
                    rename_key(tget(doc, p.file, p.path), first, new)
                return fn
            for kw in CODE_KEYWORDS[:2] + BAD_IDENTS:
                add('invalid-identifier', 'env=%r' % kw, ren(kw), p)
            for kw in DOC_ONLY_KEYWORDS[:3]:
                add('invalid-identifier-doc-keyword', 'env=%r' % kw, ren(kw), p)
        if k == 'll-aliases':
            first = list(n)[0]
            add('negative-log-level', 'alias-value=-1', _setter(p, first, -1), p)
            for w in ('abc', [1], 1.5):
                add('wrong-type', 'log-level-alias=' + _short(w), _setter(p, first, w), p)
            add('integral-float', 'log-level-alias=1.0', _setter(p, first, 1.0), p)
        if k == 'clock-type':
            fk, pk = ('frequency', 'precision') if v3 else ('freq', 'error-cycles')
            for v in (0, -1):
                add('clock-value-range', '%s=%d' % (fk, v), _setter(p, fk, v), p)
            add('clock-value-range', pk + '=-1', _setter(p, pk, -1), p)
            add('integral-float', fk + '=1000.0', _setter(p, fk, 1000.0), p)
            add('integral-float', pk + '=1.0', _setter(p, pk, 1.0), p)
            add('integral-float', 'offset.seconds=1.0', _setter2(p, 'offset', 'seconds', 1.0), p)
            add('integral-float', 'offset.cycles=1.0', _setter2(p, 'offset', 'cycles', 1.0), p)
            add('clock-value-range', 'offset.cycles=-1', _setter2(p, 'offset', 'cycles', -1), p)
            add('wrong-type', 'offset.seconds=abc', _setter2(p, 'offset', 'seconds', 'abc'), p)
            add('wrong-type', 'offset.cycles=[1]', _setter2(p, 'offset', 'cycles', [1]), p)
            add('unknown-property', 'clock-offset', _setter2(p, 'offset', 'zz', 2), p, certain=True)
            add('bad-uuid', 'clock-type', _setter(p, 'uuid', 'not-a-uuid'), p)
            if not v3:
                have = [x for x in ('return-ctype', '$return-ctype') if x in n]
                other = '$return-ctype' if 'return-ctype' in have else 'return-ctype'
                if have:
                    add('exclusive-properties', 'return-ctype+$return-ctype', _setter(p, other, 'int'), p)
        if k == 'ert':
            add('negative-log-level', 'log-level=-1', _setter(p, 'log-level', -1), p)
            add('integral-float', 'log-level=3.0', _setter(p, 'log-level', 3.0), p)
            add('unknown-log-level-alias', 'log-level=NO_SUCH_LEVEL', _setter(p, 'log-level', 'NO_SUCH_LEVEL'), p)
            for key in (('specific-context-field-type', 'payload-field-type') if v3 else ('context-type', 'payload-type')):
                add('wrong-class', key + '=int', _setter(p, key, self.lit_u8), p)
                add('wrong-class', key + '=string', _setter(p, key, {'class': 'string'}), p)
        if k == 'prefix-obj':
            for kw in BAD_IDENTS + ['struct']:
                add('invalid-identifier', 'prefix.identifier=%r' % kw, _setter(p, 'identifier', kw), p)
            add('invalid-identifier-doc-keyword', "prefix.identifier='int'", _setter(p, 'identifier', 'int'), p)
        if k == 'prefix-str':
            for kw in BAD_IDENTS + ['struct']:
                add('invalid-identifier', 'prefix=%r' % kw, _replacer(p, kw), p)
            add('invalid-identifier-doc-keyword', "prefix='int'", _replacer(p, 'int'), p)
        if k == 'config' and not v3:
            for w in ('3.0', '1.0', '2.3', 2.2, 2):
                add('bad-enum-value', 'version=' + _short(w), _setter(p, 'version', w), p)
        if k == 'metadata' and not v3:
            have = [x for x in ('log-levels', '$log-levels') if x in n]
            if have:
                other = '$log-levels' if 'log-levels' in have else 'log-levels'
                add('exclusive-properties', 'log-levels+$log-levels', _setter(p, other, {'X': 1}), p)
            if p.file == MAIN:
                add('unknown-default-stream', '$default-stream=no_such', _setter(p, '$default-stream', 'no_such'), p)
        if k == 'dst':
            self.dst_ops(p, n)
        if k == 'tt-features' and v3:
            add('magic-not-32', 'size=16', _setter(p, 'magic-field-type', {'class': 'uint', 'size': 16}), p)
            add('magic-not-32', 'size=64', _setter(p, 'magic-field-type', {'class': 'uint', 'size': 64}), p)
            add('uuid-ft-shape', 'length=8',
                _setter(p, 'uuid-field-type', {'class': 'static-array', 'length': 8, 'element-field-type': V3_LIT_U8}), p)
            add('uuid-ft-shape', 'element-size=16',
                _setter(p, 'uuid-field-type', {'class': 'static-array', 'length': 16,
                                               'element-field-type': {'class': 'uint', 'size': 16}}), p)
            add('uuid-ft-shape', 'not-array', _setter(p, 'uuid-field-type', V3_LIT_U8), p)
            for fk in ('magic-field-type', 'data-stream-type-id-field-type'):
                self.feature_class_ops(p, fk)
                self.feature_variant_ops(p, fk)
        if k in ('pkt-features', 'er-features') and v3:
            for fk in sorted(V3_SPEC[k][0]):
                self.feature_class_ops(p, fk)
                self.feature_variant_ops(p, fk)
        if k == 'pkt-features' and v3:
            add('cannot-disable-feature', 'total-size=false', _setter(p, 'total-size-field-type', False), p)
            add('cannot-disable-feature', 'content-size=false', _setter(p, 'content-size-field-type', False), p)


    # -- every class / spelling / form at one field type position
    def class_variant_ops(self, p, put, families, where, forms=('literal', 'alias', 'inherit'), base_size=16,
                          control=True, touch=None, coarse=False):
        """`put(doc, value)` writes a field type (node or alias name) at the position; every
        violation of every class family in `families` is written there, in every form."""
        v3 = self.v3
        spell = V3_SPELL if v3 else V2_SPELL
        inh_key = '$inherit'
        for fam in families:
            viols = v3_ft_violations(fam) if v3 else v2_ft_violations(fam)
            for sp in spell[fam]:
                base = v3_ft_base(sp, fam, base_size) if v3 else v2_ft_base(sp, fam)
                pos = D.Pos(p.file, p.path, p.kind, p.loc, cls=fam, name=p.name, inh=False)
                if control:
                    def ctl(doc, base=base):
                        put(doc, copy.deepcopy(base))
                    ctl.touch = touch
                    self.add('control-valid-variant', '%s=%s' % (where, _flow(base)), ctl, pos,
                             cell=('variant', fam) if coarse else (fam, sp))
                for (constraint, variant, prop, val) in viols:
                    bad = apply_violation(base, prop, val)
                    for form in forms:
                        if form == 'literal':
                            def fn(doc, bad=bad):
                                put(doc, copy.deepcopy(bad))
                            text = _flow(bad)
                        elif form == 'alias':
                            def fn(doc, bad=bad):
                                self._add_aliases(doc, {'zz_variant': bad})
                                put(doc, 'zz_variant')
                            text = 'zz_variant (alias of %s)' % _flow(bad)
                        else:
                            # an overlay mapping / sequence is MERGED with the inherited one: only a
                            # value that replaces the inherited one is a violation for sure
                            if val is not DEL and isinstance(val, (dict, list)) and type(base.get(prop)) is type(val):
                                continue
                            al = apply_violation(base, prop, DEL) if val is DEL else base
                            over = {inh_key: 'zz_variant'}
                            if val is not DEL:
                                over[prop] = val

                            def fn(doc, al=al, over=over):
                                self._add_aliases(doc, {'zz_variant': al})
                                put(doc, copy.deepcopy(over))
                            text = '%s (zz_variant = %s)' % (_flow(over), _flow(al))
                        fn.touch = touch
                        self.add(constraint, '%s: %s = %s' % (variant, where, text), fn, pos,
                                 certain=(constraint == 'unknown-property' and form == 'literal'),
                                 cell=('variant', fam) if coarse else (fam,))

    def feature_variant_ops(self, p, fk):
        """feature field types accept unsigned integers and unsigned enumerations"""
        def put(doc, val, fk=fk):
            tget(doc, p.file, p.path)[fk] = val
        size = 32 if fk == 'magic-field-type' else 16
        if fk == 'total-size-field-type':
            size = 64          # never narrower than the content size field type
        if fk == 'content-size-field-type':
            size = 8           # never wider than the total size field type
            tot = tget(self.base.doc, p.file, p.path).get('total-size-field-type')
            if isinstance(tot, dict) and isinstance(tot.get('size'), int) and tot['size'] < 8:
                return
        if 'timestamp' in fk:
            # a timestamp feature needs the default clock type of its data stream type
            dstn = tget(self.base.doc, p.file, p.path[:-2]) if len(p.path) >= 2 else {}
            if not (isinstance(dstn, dict) and dstn.get('$default-clock-type-name')):
                return
        pos = D.Pos(p.file, p.path, p.kind, (p.loc or '') + 'feature:' + fk, cls=None, name=fk)
        self.class_variant_ops(pos, put, ('uint', 'uenum'), fk, base_size=size, touch=tuple(p.path) + (fk,))

    def feature_class_ops(self, p, fk):
        self.add('feature-ft-not-unsigned-int', fk + '=sint', _setter(p, fk, {'class': 'sint', 'size': 32}), p)
        self.add('feature-ft-not-unsigned-int', fk + '=string', _setter(p, fk, {'class': 'string'}), p)
        self.add('feature-ft-not-unsigned-int', fk + '=real', _setter(p, fk, {'class': 'real', 'size': 32}), p)

    def _rename_named(self, p, old, new, what):
        def fn(doc):
            rename_key(tget(doc, p.file, p.path), old, new)
            if what == 'clock-type':
                # keep the references consistent: the only fault is the identifier
                for f in sorted(doc):
                    for _, n in D.generic_walk(doc[f]):
                        if isinstance(n, dict):
                            if n.get('$default-clock-type-name') == old:
                                n['$default-clock-type-name'] = new
                            if n.get('type') == 'clock' and n.get('name') == old:
                                n['name'] = new
            if what == 'dst':
                for f in sorted(doc):
                    for _, n in D.generic_walk(doc[f]):
                        if isinstance(n, dict) and n.get('$default-stream') == old:
                            n['$default-stream'] = new
        return fn

    def dst_ops(self, p, n):
        add = self.add
        v3 = self.v3
        erk = 'event-record-types' if v3 else 'events'
        if v3:
            add('unknown-clock-type', 'no_such_clock', _setter(p, '$default-clock-type-name', 'no_such_clock'), p)
            add('invalid-identifier', "$default-clock-type-name='a-b'", _setter(p, '$default-clock-type-name', 'a-b'), p)
            add('wrong-class', 'common-context=int', _setter(p, 'event-record-common-context-field-type', V3_LIT_U8), p)
        else:
            add('wrong-class', 'event-context-type=int', _setter(p, 'event-context-type', V2_LIT_U8), p)
            add('wrong-class', 'event-header-type=int', _setter(p, 'event-header-type', V2_LIT_U8), p)
            add('wrong-class', 'packet-context-type=int', _setter(p, 'packet-context-type', V2_LIT_U8), p)
        if p.file != MAIN:
            return
        # --- the following need the complete data stream type: root file only
        ert_names = lambda doc: tget(doc, p.file, p.path).setdefault(erk, {})   # noqa: E731
        lit_pl = ({'payload-field-type': {'class': 'struct', 'members': [{'zz': {'field-type': V3_LIT_U8}}]}} if v3
                  else {'payload-type': {'class': 'struct', 'fields': {'zz': V2_LIT_U8}}})

        def ensure_erts(doc, count):
            e = ert_names(doc)
            i = 0
            while len(e) < count:
                e['zz_extra_%d' % i] = copy.deepcopy(lit_pl)
                i += 1

        def set_feature(doc, grp, key, val):
            d = tget(doc, p.file, p.path)
            f = d.setdefault('$features', {})
            if not isinstance(f, dict):
                f = d['$features'] = {}
            g = f.setdefault(grp, {})
            if not isinstance(g, dict):
                g = f[grp] = {}
            g[key] = copy.deepcopy(val)

        if v3:
            def small(kind, cls='uint'):
                def fn(doc):
                    ensure_erts(doc, 3)
                    ft1 = {'class': cls, 'size': 1}
                    ft8 = {'class': cls, 'size': 8}
                    if 'enum' in cls:
                        ft1['mappings'] = {'A': [0], 'B': [1]}
                        ft8['mappings'] = {'A': [0], 'B': [1]}
                    if kind == 'literal':
                        val = ft1
                    elif kind == 'alias':
                        self._add_aliases(doc, {'zz_bit': ft1})
                        val = 'zz_bit'
                    else:
                        self._add_aliases(doc, {'zz_u8': ft8})
                        val = {'$inherit': 'zz_u8', 'size': 1}
                    set_feature(doc, 'event-record', 'type-id-field-type', val)
                return fn
            for kind in ('literal', 'alias', 'inherit'):
                add('id-field-too-small', 'type-id 1 bit, 3 event record types (%s)' % kind, small(kind), p)
                for cls in ('uenum', 'unsigned-enum', 'unsigned-enumeration'):
                    add('id-field-too-small', 'type-id 1 bit %s, 3 event record types (%s)' % (cls, kind), small(kind, cls), p)

            def small2(doc):
                ensure_erts(doc, 5)
                set_feature(doc, 'event-record', 'type-id-field-type', {'class': 'uint', 'size': 2})
            add('id-field-too-small', 'type-id 2 bits, 5 event record types', small2, p)

            def disabled(doc):
                ensure_erts(doc, 2)
                set_feature(doc, 'event-record', 'type-id-field-type', False)
            add('id-field-disabled', 'type-id false, >=2 event record types', disabled, p)

            def tc(total, content, via=None):
                def fn(doc):
                    tv = {'class': 'uint', 'size': total}
                    cv = {'class': 'uint', 'size': content} if content is not None else None
                    if via == 'alias':
                        self._add_aliases(doc, {'zz_total': tv})
                        tv = 'zz_total'
                    set_feature(doc, 'packet', 'total-size-field-type', tv)
                    if cv is not None:
                        set_feature(doc, 'packet', 'content-size-field-type', cv)
                    else:
                        set_feature(doc, 'packet', 'content-size-field-type', True)
                return fn
            add('total-size-lt-content-size', 'total 16, content 32', tc(16, 32), p)
            add('total-size-lt-content-size', 'total 8, content 64', tc(8, 64), p)
            add('total-size-lt-content-size', 'total 16 via alias, content 32', tc(16, 32, 'alias'), p)
            add('total-size-lt-content-size', 'total 8, content default', tc(8, None), p)
            add('total-size-lt-content-size', 'total 31, content 32', tc(31, 32), p)

            # a barectf-reserved packet context member name stays reserved when the feature that would create
            # the member is disabled (the C generator selects its templates by member NAME)
            feat_of = {'timestamp_begin': 'beginning-timestamp-field-type', 'timestamp_end': 'end-timestamp-field-type',
                       'events_discarded': 'discarded-event-records-counter-snapshot-field-type',
                       'packet_seq_num': 'sequence-number-field-type'}

            def reserved_off(name, feat):
                def fn(doc):
                    set_feature(doc, 'packet', feat, False)
                    d = tget(doc, p.file, p.path)
                    x = d.get('packet-context-field-type-extra-members')
                    if not isinstance(x, list):
                        x = d['packet-context-field-type-extra-members'] = []
                    x.append({name: {'field-type': copy.deepcopy(V3_LIT_U8)}})
                return fn
            for name in sorted(feat_of):
                add('reserved-member', name + ' with its feature disabled', reserved_off(name, feat_of[name]), p)
        else:
            def hdr_id(doc, val):
                d = tget(doc, p.file, p.path)
                h = d.get('event-header-type')
                if not isinstance(h, dict) or not isinstance(h.get('fields'), dict):
                    h = d['event-header-type'] = {'class': 'struct', 'fields': {}}
                if val is None:
                    h['fields'].pop('id', None)
                else:
                    h['fields']['id'] = val

            def small(doc):
                ensure_erts(doc, 3)
                hdr_id(doc, {'class': 'int', 'size': 1})
            add('id-field-too-small', 'id 1 bit, 3 events', small, p)

            def disabled(doc):
                ensure_erts(doc, 2)
                hdr_id(doc, None)
            add('id-field-disabled', 'no id field, >=2 events', disabled, p)

            def pc(doc):
                d = tget(doc, p.file, p.path)
                return d['packet-context-type']['fields']

            def tc(total, content):
                def fn(doc):
                    f = pc(doc)
                    f['packet_size'] = {'class': 'int', 'size': total}
                    f['content_size'] = {'class': 'int', 'size': content}
                return fn
            if isinstance(n.get('packet-context-type'), dict) and isinstance(n['packet-context-type'].get('fields'), dict):
                add('total-size-lt-content-size', 'packet_size 16, content_size 32', tc(16, 32), p)
                add('total-size-lt-content-size', 'packet_size 8, content_size 64', tc(8, 64), p)
                for r in ('packet_size', 'content_size'):
                    def rm(doc, r=r):
                        del pc(doc)[r]
                    add('missing-required', 'packet-context.' + r, rm, p)

                    def sg(doc, r=r):
                        pc(doc)[r] = {'class': 'int', 'size': 32, 'signed': True}
                    add('feature-ft-not-unsigned-int', r + '=signed', sg, p)

                    def st(doc, r=r):
                        pc(doc)[r] = {'class': 'string'}
                    add('feature-ft-not-unsigned-int', r + '=string', st, p)
                fields = n['packet-context-type']['fields']
                if 'timestamp_begin' in fields:
                    def noend(doc):
                        del pc(doc)['timestamp_end']
                    add('timestamp-begin-without-end', 'delete timestamp_end', noend, p)

                    pass

    def root_level_ops(self):
        """Operators that need several data stream types (root file)."""
        add = self.add
        v3 = self.v3
        base = self.base
        dkey = ('trace', 'type', 'data-stream-types') if v3 else ('metadata', 'streams')
        p = Dpos(MAIN, dkey, kind='dsts', loc='')
        names = list(tget(base.doc, MAIN, dkey))
        lit_dst = ({'event-record-types': {'zz_e': {'payload-field-type': {
            'class': 'struct', 'members': [{'zz': {'field-type': V3_LIT_U8}}]}}}} if v3 else
            {'packet-context-type': {'class': 'struct', 'fields': {'packet_size': {'class': 'int', 'size': 32},
                                                                  'content_size': {'class': 'int', 'size': 32}}},
             'events': {'zz_e': {'payload-type': {'class': 'struct', 'fields': {'zz': V2_LIT_U8}}}}})

        def ensure_dsts(doc, count):
            d = tget(doc, MAIN, dkey)
            i = 0
            while len(d) < count:
                d['zz_dst_%d' % i] = copy.deepcopy(lit_dst)
                i += 1
        if v3:
            def setf(doc, val):
                tt = tget(doc, MAIN, ('trace', 'type'))
                f = tt.setdefault('$features', {})
                f['data-stream-type-id-field-type'] = val

            def small(kind, cls='uint'):
                def fn(doc):
                    ensure_dsts(doc, 3)
                    ft1 = {'class': cls, 'size': 1}
                    ft8 = {'class': cls, 'size': 8}
                    if 'enum' in cls:     # every class a feature field type may have: unsigned enumerations too
                        ft1['mappings'] = {'A': [0], 'B': [1]}
                        ft8['mappings'] = {'A': [0], 'B': [1]}
                    if kind == 'literal':
                        setf(doc, ft1)
                    elif kind == 'alias':
                        self._add_aliases(doc, {'zz_bit': ft1})
                        setf(doc, 'zz_bit')
                    else:
                        self._add_aliases(doc, {'zz_u8': ft8})
                        setf(doc, {'$inherit': 'zz_u8', 'size': 1})
                return fn
            for kind in ('literal', 'alias', 'inherit'):
                add('id-field-too-small', 'dst-id 1 bit, 3 data stream types (%s)' % kind, small(kind), p)
                for cls in ('uenum', 'unsigned-enum', 'unsigned-enumeration'):
                    add('id-field-too-small', 'dst-id 1 bit %s, 3 data stream types (%s)' % (cls, kind), small(kind, cls), p)

            def disabled(doc):
                ensure_dsts(doc, 2)
                setf(doc, False)
            add('id-field-disabled', 'dst-id false, >=2 data stream types', disabled, p)

            def two(a, b):
                def fn(doc):
                    ensure_dsts(doc, 2)
                    d = tget(doc, MAIN, dkey)
                    ks = list(d)
                    for k in ks:
                        d[k].pop('$is-default', None)
                    d[ks[a]]['$is-default'] = True
                    d[ks[b]]['$is-default'] = True
                return fn
            add('two-default-dsts', 'first+second', two(0, 1), p)
            add('two-default-dsts', 'first+last', two(0, -1), p)

            def three(doc):
                ensure_dsts(doc, 3)
                d = tget(doc, MAIN, dkey)
                for k in d:
                    d[k]['$is-default'] = True
            add('two-default-dsts', 'all', three, p)
        else:
            def hdr(doc):
                t = tget(doc, MAIN, ('metadata', 'trace'))
                t.pop('$include', None)
                t.setdefault('byte-order', 'le')
                h = t.get('packet-header-type')
                if not isinstance(h, dict) or 'class' not in h:
                    h = t['packet-header-type'] = {'class': 'struct', 'fields': {}}
                h.setdefault('fields', {})
                return h['fields']

            def small(doc):
                ensure_dsts(doc, 3)
                f = hdr(doc)
                f['stream_id'] = {'class': 'int', 'size': 1}
            add('id-field-too-small', 'stream_id 1 bit, 3 streams', small, p)

            def disabled(doc):
                ensure_dsts(doc, 2)
                f = hdr(doc)
                f.pop('stream_id', None)
            add('id-field-disabled', 'no stream_id, >=2 streams', disabled, p)

            def badmagic(doc):
                hdr(doc)['magic'] = {'class': 'int', 'size': 16}
            add('magic-not-32', 'magic size 16', badmagic, p)

            def signed_id(doc):
                hdr(doc)['stream_id'] = {'class': 'int', 'size': 8, 'signed': True}
            add('feature-ft-not-unsigned-int', 'stream_id signed', signed_id, p)

            def baduuid(doc):
                hdr(doc)['uuid'] = {'class': 'array', 'length': 8, 'element-type': {'class': 'int', 'size': 8}}
                tget(doc, MAIN, ('metadata', 'trace'))['uuid'] = D.UUID_A
            add('uuid-ft-shape', 'length=8', baduuid, p)

            def two(kind):
                def fn(doc):
                    ensure_dsts(doc, 2)
                    m = tget(doc, MAIN, ('metadata',))
                    d = m['streams']
                    ks = list(d)
                    for k in ks:
                        d[k].pop('$default', None)
                    m.pop('$default-stream', None)
                    if kind == 'two-$default':
                        d[ks[0]]['$default'] = True
                        d[ks[1]]['$default'] = True
                    else:
                        m['$default-stream'] = ks[0]
                        d[ks[-1]]['$default'] = True
                return fn
            def badclk(doc):
                # every clock reference of the document names a clock type that does not exist
                for f in sorted(doc):
                    for _, n in D.generic_walk(doc[f]):
                        if isinstance(n, dict) and n.get('type') == 'clock' and 'name' in n:
                            n['name'] = 'no_such_clock'
            add('unknown-clock-type', 'all property-mappings name=no_such_clock', badclk, p, certain=True)
            add('two-default-dsts', '$default on two streams', two('two-$default'), p)
            add('two-default-dsts', '$default-stream + $default on another', two('mixed'), p)
        _ = names

    def generate(self):
        for p in D.walk(self.base):
            k = p.kind
            if k == 'ft':
                self.ft_ops(p)
            elif k == 'ft-ref':
                self.ref_ops(p)
            elif k == 'inherit-ref':
                self.inherit_ref_ops(p)
            elif k == 'members':
                self.members_ops(p)
            elif k == 'member-entry':
                self.member_entry_ops(p)
            elif k == 'member-obj':
                self.member_obj_ops(p)
            elif k == 'includable':
                self.include_ops(p)
            if k in (V3_SPEC if self.v3 else V2_SPEC):
                self.object_ops(p)
            self.value_ops(p)
        self.root_level_ops()
        return self.ops


def Dpos(file, path, kind=None, loc=''):
    return D.Pos(file, path, kind, loc)


# ------------------------------------------------------------------ building and evaluating mutants

def loc_kind(p):
    """Location kind of a position (matrix column)."""
    return p.loc or 'root'


def same_tree(a, b):
    if type(a) is not type(b):
        return False
    if isinstance(a, dict):
        return list(a) == list(b) and all(same_tree(a[k], b[k]) for k in a)
    if isinstance(a, list):
        return len(a) == len(b) and all(same_tree(x, y) for x, y in zip(a, b))
    return a == b


def build_mutant(base, op, base_texts):
    """Apply an operator to a copy of the base document.  Returns {file: text} of the root file and
    of every changed / new file, or a string (reason) when the operator does not apply."""
    doc = copy.deepcopy(base.doc)
    try:
        op.fn(doc)
    except Exception as e:   # an operator that does not apply here is a harness bug: make it visible
        return 'operator raised %r' % (e,)
    files = {}
    for fn in sorted(doc):
        if fn != MAIN and fn in base.doc and same_tree(doc[fn], base.doc[fn]):
            continue
        text = D.dump_file(fn, doc[fn], base.dialect)
        if op.repl:
            text = text.replace(op.repl[0], op.repl[1])
        files[fn] = text
    if len(files) == 1 and files[MAIN] == base_texts[MAIN]:
        return 'no-op'
    return files


_W = {}      # per-process cache: base name -> (base, ops, base_texts)


def _worker_base(name, scratch):
    if name not in _W:
        for b in D.all_bases():
            if b.name == name:
                b.incdir = os.path.join(scratch, 'bases', b.name)
                _W[name] = (b, Gen(b).generate(), {fn: D.dump_file(fn, t, b.dialect) for fn, t in b.doc.items()})
    return _W[name]


class PairCollision(Exception):
    pass


def _eval(task):
    """Worker: build one mutant and load it through the real front end."""
    base, ops, base_texts = _worker_base(task['base'], task['scratch'])
    if 'pair' in task:
        o1, o2 = ops[task['pair'][0]], ops[task['pair'][1]]

        def _alias_maps(x, acc):
            if isinstance(x, dict):
                for k, v in x.items():
                    if k in ('$field-type-aliases', 'type-aliases') and isinstance(v, dict):
                        acc.append(v)
                    _alias_maps(v, acc)
            elif isinstance(x, list):
                for v in x:
                    _alias_maps(v, acc)
            return acc

        def both(doc):
            o1.fn(doc)
            before = copy.deepcopy(_alias_maps(doc, []))
            try:
                o2.fn(doc)
            except Exception:
                pass
            # the second fault must not redefine an alias the first one relies on (both use the helper name
            # zz_variant): the document would then carry the second fault only
            after = _alias_maps(doc, [])
            for b, a in zip(before, after):
                for k, v in b.items():
                    if a.get(k) != v:
                        raise PairCollision(k)
        op = Op('pair', '', both, o1.pos, o1.certain or o2.certain)
    else:
        op = ops[task['op']]
    files = build_mutant(base, op, base_texts)
    if isinstance(files, str):
        return {'id': task['id'], 'outcome': 'skip', 'msg': files}
    d = os.path.join(task['scratch'], 'm%d' % task['id'])
    try:
        main = D.write_case(d, files)
        incdirs = [d, base.incdir]
        r = D.call_api_confirmed('from_file', main, incdirs)
        out = {'id': task['id'], 'outcome': r['outcome'],
               'hash': D.sha(base.name + '\0' + '\0'.join('%s\0%s' % kv for kv in sorted(files.items())))}
        if r['outcome'] == 'ok':
            e = D.call_api_confirmed('effective', main, incdirs)
            out['effective'] = e.get('value') if e['outcome'] == 'ok' else None
            out['files'] = files
        elif r['outcome'] == 'cpe':
            out['msg'] = r.get('msg', '')[-200:]
        else:
            out['exc'] = '%s @ %s' % (r.get('exc_type'), r.get('site') or r.get('inner'))
        if task.get('want_text'):
            out['head'] = files[MAIN][:300]
        return out
    finally:
        shutil.rmtree(d, ignore_errors=True)


def classify_accept(task, eff_text, base_eff):
    """Finding key for an accepted mutant, or None when the mutation did not reach the effective
    configuration (then it is not a violation)."""
    reached, through_dyn = task['certain'], False
    paths = []
    if eff_text is not None:
        try:
            eff = D.strip_volatile(D.load_effective_text(eff_text))
            paths = D.diff_paths(base_eff, eff)
            if paths:
                reached = True
                through_dyn = all(D.through_dynamic_array(eff, pth) or D.through_dynamic_array(base_eff, pth)
                                  for pth in paths)
        except Exception:
            reached = True
    if not reached:
        return None, paths
    c = task['constraint']
    if c == 'duplicate-member-yaml-key':
        return 'NOTE-yaml-duplicate-key', paths
    if through_dyn or (task['cls'] == 'darray' and task['dialect'] == 3) or 'dyn-elem' in task['loc']:
        return 'S4-dynamic-array-unvalidated', paths
    if c == 'missing-required' and task['variant'] == 'length':
        return 'S14-static-array-length-not-required', paths
    if task['dialect'] == 3 and task['kind'] in ('members', 'member-entry') and c in ('invalid-identifier',):
        return 'NEW-struct-member-name-pattern-not-enforced', paths
    if c == 'unknown-property' and task['kind'] == 'trace':
        return 'NEW-trace-object-unknown-property-accepted', paths
    return 'NEW-%s' % c, paths


def select(tasks, ctx, budget_cpu_s):
    """Quick tier: keep at least one mutant per (base, constraint, location kind) cell, then fill the
    CPU budget with a seeded random sample of the rest."""
    cost = lambda t: 0.34 if t['dialect'] == 2 else 0.15   # noqa: E731
    if sum(cost(t) for t in tasks) <= budget_cpu_s:
        return tasks
    cells = {}
    per_constraint = {}
    for t in tasks:
        per_constraint[(t['base'], t['constraint'])] = per_constraint.get((t['base'], t['constraint']), 0) + 1
    for t in tasks:
        cell = t.get('cell')
        loc = t['loc'].rsplit('>', 1)[-1] if cell and cell[0] == 'variant' else t['loc']
        # constraints with few operator applications (the cross-field ones: ID field too small, total size
        # narrower than content size, a feature that cannot be disabled, ...) are kept in EVERY variant: their
        # variants differ in which of the two fields is explicit / default / an alias, and a slip typically
        # concerns one of them only
        var = t['variant'] if per_constraint[(t['base'], t['constraint'])] <= 80 else None
        cells.setdefault((t['base'], t['constraint'], loc, cell, var), []).append(t)
    keep, rest = [], []
    for k in sorted(cells, key=repr):
        lst = cells[k]
        j = ctx.rng.randrange(len(lst))
        keep.append(lst[j])
        rest += lst[:j] + lst[j + 1:]
    spent = sum(cost(t) for t in keep)
    ctx.rng.shuffle(rest)
    for t in rest:
        c = cost(t)
        if spent + c > budget_cpu_s:
            continue
        keep.append(t)
        spent += c
    keep.sort(key=lambda t: (t['base'], t['op']))
    return keep


def run(ctx):
    import bt
    t0 = time.time()
    scratch = os.path.join(ctx.scratch, 'c09o')
    os.makedirs(scratch, exist_ok=True)
    bases = D.all_bases()
    cov = ctx.cov.setdefault('oracle', {})
    base_eff, good = {}, []
    for b in bases:
        d = b.write(os.path.join(scratch, 'bases'))
        r = D.call_api_confirmed('from_file', os.path.join(d, MAIN), [d])
        if r['outcome'] != 'ok':
            ctx.corr_broken.append('C09 oracle: base document %s does not load (harness bug): %s' % (b.name, r))
            continue
        out = os.path.join(scratch, 'gen-' + b.name)
        try:
            files = bt.generate(r['value'], out)
            fails = D.compile_generated(files, out)
        except Exception as e:
            fails = [('generate', repr(e))]
        if fails:
            ctx.corr_broken.append('C09 oracle: base document %s does not generate/compile: %s' % (b.name, fails[0]))
            continue
        e = D.call_api_confirmed('effective', os.path.join(d, MAIN), [d])
        base_eff[b.name] = D.strip_volatile(D.load_effective_text(e['value']))
        good.append(b)

    tasks, nops = [], 0
    opcount, masked = {}, {}
    for b in good:
        gen = Gen(b)
        ops = gen.generate()
        opcount[b.name] = len(ops)
        masked[b.name] = gen.masked
        nops += len(ops)
        for i, op in enumerate(ops):
            tasks.append({'base': b.name, 'dialect': b.dialect, 'op': i, 'constraint': op.constraint,
                          'variant': op.variant, 'loc': loc_kind(op.pos), 'file': op.pos.file, 'kind': op.pos.kind,
                          'path': '/'.join(map(str, op.pos.path)), 'cls': op.pos.cls, 'certain': op.certain,
                          'cell': op.cell})
    generated = len(tasks)
    all_single = list(tasks)
    # a broken proof or correspondence must be pinned to a concrete input: search with a larger budget
    boost = 5.0 if (ctx.quick and (ctx.proof_broken or ctx.corr_broken)) else 1.0
    cov['budget_boost_because_proof_or_correspondence_broken'] = boost
    budget = ctx.pick(44.0, 540.0) * WORKERS * boost
    tasks = select(tasks, ctx, budget)
    if not ctx.quick:
        for b in good:
            n = opcount[b.name]
            meta = {(t['base'], t['op']): t for t in all_single}
            made = 0
            for _ in range(3000):
                if made >= 150:
                    break
                i, j = ctx.rng.randrange(n), ctx.rng.randrange(n)
                mi, mj = meta[(b.name, i)], meta[(b.name, j)]
                # the second fault must not overwrite the first one: never a (valid) control variant, never
                # two operators writing at the same position
                if 'control-valid-variant' in (mi['constraint'], mj['constraint']):
                    continue
                if i == j or (mi['file'] == mj['file'] and mi['path'] == mj['path']):
                    continue
                made += 1
                parts = [{k: meta[(b.name, x)][k] for k in ('constraint', 'variant', 'loc', 'kind', 'cls', 'certain', 'file', 'path')}
                         for x in (i, j)]
                tasks.append({'base': b.name, 'dialect': b.dialect, 'op': i, 'pair': (i, j), 'constraint': 'pair',
                              'variant': '%s/%s + %s/%s' % (parts[0]['constraint'], parts[0]['variant'],
                                                            parts[1]['constraint'], parts[1]['variant']),
                              'loc': 'pair', 'file': '', 'kind': 'pair', 'path': '', 'cls': None, 'certain': False,
                              'parts': parts})
    step = max(1, len(tasks) // 8)
    for i, t in enumerate(tasks):
        t['id'] = i
        t['scratch'] = scratch
        t['want_text'] = (i % step == 0)
    results = D.run_pool(_eval, tasks, workers=WORKERS, chunk=10)

    matrix, per_dialect, samples = {}, {}, []
    finding_counts, benign, skipped = {}, [], []
    notes_dup, hashes = 0, set()
    for t, r in zip(tasks, results):
        oc = r['outcome'] if r else 'crash'
        if oc == 'skip':
            skipped.append('%s %s/%s %s:%s: %s' % (t['base'], t['constraint'], t['variant'], t['file'], t['path'], r['msg']))
            continue
        hashes.add(r.get('hash', t['id']))
        cell = matrix.setdefault(t['constraint'], {}).setdefault(
            t['loc'], {'tried': 0, 'rejected': 0, 'rejected_other': 0, 'accepted': 0})
        dd = per_dialect.setdefault('v%d' % t['dialect'], {'tried': 0, 'rejected': 0, 'rejected_other': 0,
                                                           'accepted_violating': 0, 'accepted_not_reaching_effective': 0})
        if t['constraint'] == 'control-valid-variant':
            # a VALID field type of this class/spelling at this position: must load (otherwise the
            # violating variants at this position prove nothing)
            cc = cov.setdefault('control_valid_variants', {'tried': 0, 'accepted': 0, 'rejected': []})
            cc['tried'] += 1
            if oc == 'ok':
                cc['accepted'] += 1
            elif len(cc['rejected']) < 30:
                cc['rejected'].append('%s %s %s:%s -> %s %s' % (t['base'], t['variant'], t['file'], t['path'], oc,
                                                               (r.get('msg') or r.get('exc') or '')[-120:] if r else ''))
            continue
        cell['tried'] += 1
        dd['tried'] += 1
        if oc == 'cpe':
            cell['rejected'] += 1
            dd['rejected'] += 1
        elif oc == 'ok':
            if t['constraint'] == 'pair':
                # two faults: classified by its parts (the first part with a finding key wins)
                key, paths = None, []
                for part in t['parts']:
                    k2, paths = classify_accept(dict(t, **part), r.get('effective'), base_eff[t['base']])
                    if k2 is not None and not k2.startswith('NOTE-'):
                        key = k2
                        break
            else:
                key, paths = classify_accept(t, r.get('effective'), base_eff[t['base']])
            if key is None:
                dd['accepted_not_reaching_effective'] += 1
                cell['accepted_benign'] = cell.get('accepted_benign', 0) + 1
                benign.append('%s %s/%s %s:%s' % (t['base'], t['constraint'], t['variant'], t['file'], t['path']))
                continue
            if key == 'NOTE-yaml-duplicate-key':
                notes_dup += 1
                cell['accepted_yaml_level'] = cell.get('accepted_yaml_level', 0) + 1
                continue
            cell['accepted'] += 1
            dd['accepted_violating'] += 1
            finding_counts[key] = finding_counts.get(key, 0) + 1
            what = ('configuration violating the documented constraint `%s` (%s) is accepted: base %s, %s at %s:%s (%s)'
                    % (t['constraint'], t['variant'], t['base'], t['cls'] or t['kind'], t['file'], t['path'], t['loc']))
            replay = {'constraint': t['constraint'], 'variant': t['variant'], 'base': t['base'],
                      'dialect': t['dialect'], 'position': '%s:%s' % (t['file'], t['path']), 'location_kind': t['loc'],
                      'files': r.get('files'), 'effective_diff_paths': ['/'.join(map(str, x)) for x in paths[:6]],
                      'how': 'write the files into a directory D; barectf.configuration_from_file(open(D/config.yaml), '
                             'inclusion_directories=[D, <directory with the unchanged files of c09_docs.%s()>])' % t['base']}
            if finding_counts[key] <= 2:
                ctx.finding(key, what, replay)
            if len(samples) < 14 and finding_counts[key] <= 2:
                samples.append({'constraint': t['constraint'], 'variant': t['variant'], 'loc': t['loc'],
                                'dialect': t['dialect'], 'outcome': 'ACCEPTED -> ' + key})
        else:
            cell['rejected_other'] += 1
            dd['rejected_other'] += 1
            ex = cov.setdefault('rejected_other_sites', {})
            kx = r.get('exc', oc) if r else 'crash'
            ex[kx] = ex.get(kx, 0) + 1
        if r and 'head' in r and len(samples) < 24:
            samples.append({'constraint': t['constraint'], 'variant': t['variant'], 'loc': t['loc'],
                            'dialect': t['dialect'], 'outcome': oc,
                            'detail': (r.get('msg') or r.get('exc') or '')[:160], 'main_text_head': r['head']})
    cov.update({
        'evaluations': len(tasks) - len(skipped),
        'distinct_nontrivial': len(hashes),
        'operator_applications_enumerated': generated,
        'rule': ('typed walk of every file of every base document (%s): each field type node by class, each alias '
                 'reference, $inherit reference, members sequence / fields mapping, member entry, member object, '
                 'includable object and each object kind of the documentation gets every operator of its kind; '
                 'quick tier keeps >= 1 mutant per (base, constraint, location kind) and fills the CPU budget with a '
                 'seeded sample; thorough runs all and adds pairs of faults' % ', '.join(b.name for b in good)),
        'bases': {b.name: {'dialect': b.dialect, 'files': sorted(b.doc), 'positions': len(D.walk(b)),
                           'operator_applications': opcount[b.name],
                           'not_applied_because_an_overlay_masks_the_property': masked[b.name]} for b in good},
        'matrix': matrix,
        'constraints': len(matrix),
        'location_kinds': len(set(l for c in matrix.values() for l in c)),
        'per_dialect': per_dialect,
        'accepted_violating_by_key': finding_counts,
        'accepted_not_reaching_effective_count': len(benign),
        'accepted_not_reaching_effective': benign[:60],
        'yaml_duplicate_key_accepted': notes_dup,
        'operator_skips': skipped[:20],
        'operator_skip_count': len(skipped),
        'samples': samples,
        'wall_s': round(time.time() - t0, 1),
    })
    real_skips = [x for x in skipped if not x.endswith('no-op') and 'PairCollision' not in x]
    if real_skips:
        ctx.notes.append('C09 oracle: %d operator applications raised (harness bug), e.g. %s' % (len(real_skips), real_skips[0]))
    if notes_dup:
        ctx.notes.append('C09 oracle: %d barectf 2 documents with a duplicate YAML key in `fields` are accepted '
                         '(PyYAML keeps the last one); not counted as a violation' % notes_dup)


if __name__ == '__main__':
    import json
    import common
    tier = sys.argv[1] if len(sys.argv) > 1 else 'quick'
    seed = int(os.environ.get('VERIF_SEED', '20261001'))
    ctx = common.Ctx('C09', tier, seed)
    try:
        run(ctx)
        o = ctx.cov['oracle']
        print('evaluations', o['evaluations'], 'distinct', o['distinct_nontrivial'], 'enumerated', o['operator_applications_enumerated'],
              'constraints', o['constraints'], 'location kinds', o['location_kinds'], 'wall', o['wall_s'])
        print('per dialect', json.dumps(o['per_dialect']))
        print('accepted by key', json.dumps(o['accepted_violating_by_key']))
        print('rejected_other', json.dumps(o.get('rejected_other_sites', {}), indent=0)[:1500])
        print('benign accepted', o['accepted_not_reaching_effective_count'], o['accepted_not_reaching_effective'][:25])
        print('skips', o['operator_skip_count'], o['operator_skips'][:8])
        print('yaml dup key accepted', o['yaml_duplicate_key_accepted'])
        if '--matrix' in sys.argv:
            for c in sorted(o['matrix']):
                tot = {}
                for l, v in o['matrix'][c].items():
                    for k, x in v.items():
                        tot[k] = tot.get(k, 0) + x
                print('  %-34s locs=%-3d %s' % (c, len(o['matrix'][c]), tot))
        print('corr_broken', ctx.corr_broken)
        for a in sys.argv:
            if a.startswith('--json='):
                with open(a[7:], 'w') as f:
                    json.dump({'cov': ctx.cov, 'violations': [(w, r) for w, r, _ in ctx.violations]}, f, indent=1, default=str)
        for what, replay, _ in ctx.violations:
            print('VIOLATION', what[:300], '| key', replay.get('finding_key'))
        print('known_hits', ctx.known_hits)
        print('notes', ctx.notes[:5])
    finally:
        ctx.cleanup()
