"""C11: the effective configuration is equivalent to the original and a fixed point.

Proof: Props/C11.v (Front/Normalize, LogLevel, Effective, EffectiveProofs; reuses the C12 models
Include / Alias / Inherit / Patch).
Tie, on every run:
 (1) correspondence: the REAL barectf.effective_configuration_file(path, True, dirs), re-read with
     PyYAML, against the Coq `effective` evaluated by vm_compute on generated barectf 3 documents
     (c11_gen.DocGen3 with every spelling alias, null resets, features as object / alias / bool,
     log level aliases, alias and `$inherit` chains, split over multi-level inclusion files in
     several directories; plus the C12 scenario generators).  On every accepted document the Coq
     side also evaluates `clean` and the fixed point with an EMPTY file system on the real tree.
 (2) oracles on the real code only (c11_oracle.py): (a) effective(effective(doc)) byte-identical,
     with no inclusion directory at all; (b) the effective document loads and is clean;
     (c) generated files identical modulo the generation date.  barectf 3 and barectf 2 documents,
     and every YAML file under /repo/tests/**/configs and /repo/examples that loads.
 (3) regression documents (accepted before the schema repairs 5eae760 / f131c5d / f6c4079 of /repo,
     their effective document kept a `$inherit`): must be configuration errors.
"""
import collections
import os
import re
from concurrent.futures import ProcessPoolExecutor, ThreadPoolExecutor

import bt  # noqa: F401
from common import prepare, run_cases_v, REPO
from props import c11_gen as G
from props import c11_oracle as O
from props import c12_e2e as E
from props import c12_trees as T

OD = collections.OrderedDict


# ------------------------------------------------------------------ Gallina rendering

def cstr(s):
    """Injective ASCII rendering of a Python string as a Coq string literal."""
    out = []
    for c in s:
        o = ord(c)
        if c == '"':
            out.append('""')
        elif c == '\\' or o < 32 or o >= 127:
            out.append('\\u{%x}' % o)
        else:
            out.append(c)
    return '"' + ''.join(out) + '"'


def to_coq(v):
    t = type(v)
    if v is None:
        return 'YNull'
    if t is bool:
        return '(YBool %s)' % ('true' if v else 'false')
    if t is int:
        return '(YInt (%d)%%Z)' % v
    if t is float:
        return '(YFloat %s)' % cstr(repr(v))
    if t is str:
        return '(YStr %s)' % cstr(v)
    if t is list:
        return '(YSeq [%s])' % '; '.join(to_coq(x) for x in v)
    if t is OD:
        return '(YMap [%s])' % '; '.join('(%s, %s)' % (cstr(k), to_coq(x)) for k, x in v.items())
    raise TypeError(t)


def representable(v):
    """Trees the model talks about: string keys only."""
    if type(v) is OD:
        return all(type(k) is str for k in v) and all(representable(x) for x in v.values())
    if type(v) is list:
        return all(representable(x) for x in v)
    return v is None or type(v) in (bool, int, float, str)


def coq_list(items):
    return '[' + ';\n '.join(items) + ']'


# ------------------------------------------------------------------ hand-written documents

W_HEAD = '''--- !<tag:barectf.org,2020/3/config>
trace:
  type:
    native-byte-order: le
    data-stream-types:
      ds:
        $is-default: true
        event-record-types:
          ev:
            payload-field-type:
              class: struct
              members:
'''

# Documents that were accepted before the repairs 5eae760 / f131c5d of /repo and whose effective
# document kept a `$inherit` property; they must be configuration errors now.  Should they load again
# the oracle (clause b) reports the `$inherit` of their effective document as a violation.
REGRESSION = [
    W_HEAD + '''                - a:
                    field-type:
                      class: dynamic-array
                      $inherit: {class: uint, size: 8}
                      element-field-type: {class: uint, size: 8}
''',
    W_HEAD + '''                - "a-b":
                    field-type:
                      class: uint
                      size: 8
                      $inherit: {class: uint, size: 8}
''',
    # unknown property of the trace object (rejected since f6c4079)
    '''--- !<tag:barectf.org,2020/3/config>
trace:
  foo: null
  type:
    native-byte-order: le
    data-stream-types:
      ds:
        event-record-types:
          ev: {payload-field-type: {class: struct, members: [{a: {field-type: {class: uint, size: 8}}}]}}
''',
]

HAND_OK = [
    # every null the effective schema allows at once, no alias anywhere
    '''--- !<tag:barectf.org,2020/3/config>
options: {code-generation: {prefix: {identifier: p_, file-name: p}, header: {identifier-prefix-definition: true}}}
trace:
  environment: null
  type:
    trace-byte-order: big
    uuid: null
    $field-type-aliases: null
    $log-level-aliases: null
    $features: {magic-field-type: null, uuid-field-type: null, data-stream-type-id-field-type: null}
    clock-types:
      c: {uuid: null, description: null, frequency: null, precision: null, offset: {seconds: null, cycles: null}, origin-is-unix-epoch: null, $c-type: null}
      d: {offset: null}
    data-stream-types:
      ds:
        $is-default: null
        $default-clock-type-name: null
        $features: {packet: null, event-record: null}
        packet-context-field-type-extra-members: null
        event-record-common-context-field-type: null
        event-record-types:
          ev:
            log-level: null
            specific-context-field-type: null
            payload-field-type:
              class: struct
              minimum-alignment: null
              members:
                - a: {field-type: {class: uint, size: 8, alignment: null, preferred-display-base: null}}
                - b: {field-type: {class: senum, size: 8, alignment: null, preferred-display-base: hex, mappings: {class: [1], "null": [2]}}}
      ds2:
        $features: null
        event-record-types:
          ev: {payload-field-type: {class: structure, members: [{s: {field-type: {class: str}}}]}}
''',
    # log level alias whose value is null; alias chain to a structure; features by alias name
    '''--- !<tag:barectf.org,2020/3/config>
trace:
  type:
    $include: [stdint.yaml, stdreal.yaml, stdmisc.yaml, lttng-ust-log-levels.yaml]
    native-byte-order: little
    $log-level-aliases: {NOTHING: null, MINE: 77}
    $field-type-aliases:
      st: {class: struct, members: [{x: uint8}, {y: {field-type: bit-packed-double}}, {z: str}]}
      st2: st
      st3: {$inherit: st2, members: [{x: {field-type: {class: uint, size: 8, preferred-display-base: oct}}}, {w: float}]}
    $features: {magic-field-type: uint32, data-stream-type-id-field-type: byte}
    data-stream-types:
      ds:
        $features: {packet: {total-size-field-type: qword, content-size-field-type: dword, sequence-number-field-type: word},
                    event-record: {type-id-field-type: uint16}}
        packet-context-field-type-extra-members: [{q: int64}, {r: {field-type: byte-packed-float}}]
        event-record-common-context-field-type: st2
        event-record-types:
          e1: {log-level: NOTHING, payload-field-type: st3}
          e2: {log-level: DEBUG_LINE, payload-field-type: {$inherit: st3, members: [{v: string}]}}
          e3: {log-level: MINE, specific-context-field-type: st, payload-field-type: st}
''',
]

# YAML anchors / aliases / merge keys: one Python object at several places of the tree; the effective
# text then uses anchors itself.  Oracle only (the tree models have no sharing).
HAND_ANCHOR = [
    '''--- !<tag:barectf.org,2020/3/config>
trace:
  type:
    native-byte-order: be
    data-stream-types:
      ds:
        $is-default: true
        event-record-common-context-field-type: &st
          class: struct
          members:
            - e: {field-type: &en {class: uenum, size: 8, preferred-display-base: oct, alignment: null, mappings: {A: [1, [3, 5]]}}}
            - f: {field-type: *en}
        event-record-types:
          e1: {payload-field-type: *st}
          e2:
            specific-context-field-type: *st
            payload-field-type:
              <<: *st
              minimum-alignment: 16
''',
]

HAND_ERR = [
    # log level alias that does not exist
    '''--- !<tag:barectf.org,2020/3/config>
trace:
  type:
    native-byte-order: le
    $log-level-aliases: {A: 1}
    data-stream-types:
      ds:
        event-record-types:
          ev: {log-level: B, payload-field-type: {class: struct, members: [{a: {field-type: {class: uint, size: 8}}}]}}
''',
    # `$inherit` without any `$field-type-aliases`: left in place, rejected by the final schema
    '''--- !<tag:barectf.org,2020/3/config>
trace:
  type:
    native-byte-order: le
    data-stream-types:
      ds:
        event-record-types:
          ev: {payload-field-type: {class: struct, members: [{a: {field-type: {$inherit: {class: uint, size: 8}, class: uint, size: 8}}}]}}
''',
    # alias name without any `$field-type-aliases`
    '''--- !<tag:barectf.org,2020/3/config>
trace:
  type:
    native-byte-order: le
    data-stream-types:
      ds:
        event-record-types:
          ev: {payload-field-type: {class: struct, members: [{a: uint8}]}}
''',
    # both byte order properties
    '''--- !<tag:barectf.org,2020/3/config>
trace:
  type:
    native-byte-order: le
    trace-byte-order: le
    data-stream-types:
      ds:
        event-record-types:
          ev: {payload-field-type: {class: struct, members: [{a: {field-type: {class: uint, size: 8}}}]}}
''',
    # string log level without aliases
    '''--- !<tag:barectf.org,2020/3/config>
trace:
  type:
    native-byte-order: le
    data-stream-types:
      ds:
        event-record-types:
          ev: {log-level: WARN, payload-field-type: {class: struct, members: [{a: {field-type: {class: uint, size: 8}}}]}}
''',
]


def hand_scenarios():
    res = []
    for text in REGRESSION:
        res.append({'kind': 'regression-witness', 'major': 3, 'root': O.load_tree(text), 'raw_root': text, 'dirs': []})
    for text in HAND_OK:
        res.append({'kind': 'hand-ok', 'major': 3, 'root': O.load_tree(text), 'raw_root': text, 'dirs': []})
    for text in HAND_ANCHOR:
        res.append({'kind': 'hand-anchor', 'major': 3, 'root': O.load_tree(text), 'raw_root': text, 'dirs': [], 'oracle_only': True})
    for text in HAND_ERR:
        res.append({'kind': 'hand-error', 'major': 3, 'root': O.load_tree(text), 'raw_root': text, 'dirs': []})
    return res


# ------------------------------------------------------------------ scenarios

def replay_scenarios(ctx):
    """Scenarios stored in replay files: ./check C11 --replay FILE, and /verif/corpus/C11/*.json (run
    first on every run).  Format: the `replay` object written by replay_of()."""
    import json
    from common import VERIF
    paths = []
    cdir = os.path.join(VERIF, 'corpus', 'C11')
    if os.path.isdir(cdir):
        paths += [os.path.join(cdir, f) for f in sorted(os.listdir(cdir)) if f.endswith('.json')]
    if getattr(ctx, 'replay', None):
        paths.append(ctx.replay)
    res = []
    for p in paths:
        try:
            with open(p) as f:
                r = json.load(f)
            r = r.get('replay', r)
            text = r['config.yaml']
            dirs, raw = collections.OrderedDict(), {}
            for d in r.get('inclusion_directories', []):
                if not d.startswith('<'):
                    dirs[d] = OD()
            for path, ftext in (r.get('files') or {}).items():
                d, fn = path.split('/', 1)
                dirs.setdefault(d, OD())[fn] = O.load_tree(ftext)
                raw[(d, fn)] = ftext
            major = 3 if E.V3_TAG in text[:400] else 2
            res.append({'kind': 'replay:' + os.path.basename(p), 'major': major, 'root': O.load_tree(text),
                        'raw_root': text, 'raw_files': raw, 'dirs': list(dirs.items())})
        except Exception as exc:  # noqa
            ctx.notes.append('replay file %s not understood: %s: %s' % (p, type(exc).__name__, exc))
    return res


def build_scenarios(ctx):
    rng = ctx.rng
    g3, g2 = G.DocGen3(rng), G.DocGen2(rng)
    s3, s2 = E.ScenGen(rng, 3), E.ScenGen(rng, 2)
    scens = replay_scenarios(ctx) + hand_scenarios()
    for i in range(ctx.pick(300, 2400)):
        root = g3.document()
        dirs = []
        kind = 'doc3'
        if rng.random() < 0.55:
            root, dirs = g3.split(root, max_level=rng.choice([1, 2, 3, 4]), ndirs=rng.choice([1, 2, 3]))
            kind = 'doc3-split'
        scens.append({'kind': kind, 'major': 3, 'root': root, 'dirs': dirs})
    for i in range(ctx.pick(40, 300)):
        s = s3.include_scenario()
        scens.append({'kind': 'c12-include3', 'major': 3, 'root': s['root'], 'dirs': s['dirs']})
    for i in range(ctx.pick(30, 200)):
        s = s3.alias_scenario('chain')
        scens.append({'kind': 'c12-alias3', 'major': 3, 'root': s['root'], 'dirs': s['dirs']})
    for i in range(ctx.pick(5, 40)):
        s = s3.alias_scenario(rng.choice(['cycle', 'undefined']))
        scens.append({'kind': 'c12-alias3-error', 'major': 3, 'root': s['root'], 'dirs': s['dirs']})
    for i in range(ctx.pick(4, 30)):
        s = rng.choice([s3.cycle_scenario, s3.missing_scenario])()
        scens.append({'kind': 'c12-include3-error', 'major': 3, 'root': s['root'], 'dirs': s['dirs']})
    # barectf 2: oracle only
    for i in range(ctx.pick(80, 600)):
        scens.append({'kind': 'doc2', 'major': 2, 'root': g2.document(), 'dirs': []})
    for i in range(ctx.pick(25, 150)):
        s = s2.include_scenario()
        scens.append({'kind': 'c12-include2', 'major': 2, 'root': s['root'], 'dirs': s['dirs']})
    for i in range(ctx.pick(20, 120)):
        s = s2.alias_scenario('chain')
        scens.append({'kind': 'c12-alias2', 'major': 2, 'root': s['root'], 'dirs': s['dirs']})
    return scens, (g3, g2, s3, s2)


def replay_of(s, out=None):
    rp = {'scenario': s['kind'], 'major_version': s['major'],
          'config.yaml': s.get('raw_root') or E.dump(s['root'], v3root=s['major'] == 3),
          'inclusion_directories': [d for d, _ in s['dirs']] + ['<barectf package inclusion directory>'],
          'files': {'%s/%s' % (d, fn): E.dump(t) for d, fs in s['dirs'] for fn, t in fs.items()}}
    if out is not None:
        if out.get('eff1') is not None:
            rp['effective'] = out['eff1'][-6000:]
        if out.get('eff2') is not None:
            rp['effective_of_effective'] = out['eff2'][-6000:]
        rp['problems'] = ['%s: %s' % p for p in out.get('problems', [])]
    return rp


# ------------------------------------------------------------------ judging the oracle

def judge(ctx, s, out, stats, reported):
    """Counts and reports the oracle outcome of one scenario; returns True when the original is valid."""
    if out['status'] == 'invalid':
        stats['invalid:%s' % out.get('why')] += 1
        return False
    stats['valid'] += 1
    stats['valid:major%d' % s['major']] += 1
    f = out['facts']
    if f.get('uuid-auto'):
        stats['valid:uuid-auto (clause c skipped)'] += 1
    if f.get('generated'):
        stats['valid:generated-and-compared'] += 1
    if f.get('anchors'):
        stats['valid:effective-text-uses-yaml-anchors'] += 1
    if not out['problems']:
        return True
    clauses = sorted(set(c for c, _ in out['problems']))
    what = '; '.join('%s: %s' % p for p in out['problems'])[:600]
    stats['violation:' + '+'.join(clauses)] += 1
    if stats['violations-reported'] < 6:
        stats['violations-reported'] += 1
        ctx.violation('C11 fails on the real code (%s, barectf %d): %s' % (s['kind'], s['major'], what), replay_of(s, out))
    return True


# ------------------------------------------------------------------ the check

def run(ctx):
    prepare(ctx)
    scens, gens = build_scenarios(ctx)
    base = os.path.join(ctx.scratch, 'c11')
    jobs = []
    for i, s in enumerate(scens):
        path = os.path.join(base, '%05d' % i)
        dirs = E.write_scenario(s, path)
        s['path'] = path
        jobs.append((os.path.join(path, 'config.yaml'), dirs, os.path.join(path, 'effective.yaml'), True))
    corpus = O.repo_corpus(REPO)
    cdir = os.path.join(base, 'corpus')
    os.makedirs(cdir, exist_ok=True)
    for i, (p, dirs) in enumerate(corpus):
        jobs.append((p, dirs, os.path.join(cdir, 'effective-%04d.yaml' % i), True))
    with ProcessPoolExecutor(max_workers=14) as ex:
        outs = list(ex.map(O.oracle_one, jobs, chunksize=4))
    stats = collections.Counter()
    reported = set()
    kinds = collections.Counter()
    nvalid = 0
    for s, out in zip(scens, outs):
        s['out'] = out
        kinds['scenario:%s' % s['kind']] += 1
        if judge(ctx, s, out, stats, reported):
            nvalid += 1
            kinds['valid:%s' % s['kind']] += 1
        if s['kind'] in ('hand-ok', 'hand-anchor') and out['status'] != 'valid':
            ctx.corr_broken.append('hand-written valid document rejected by the real code: %s' % out.get('why'))
        if s['kind'] == 'hand-error' and out['status'] != 'invalid':
            ctx.corr_broken.append('hand-written invalid document accepted by the real code')
    cstats = collections.Counter()
    ncorpus_valid = 0
    for (p, dirs), out in zip(corpus, outs[len(scens):]):
        s = {'kind': 'repo-corpus:' + os.path.relpath(p, REPO), 'major': 0, 'root': None, 'dirs': [],
             'raw_root': open(p).read()}
        s['dirs'] = []
        if out['status'] == 'valid':
            try:
                with open(p) as fh:
                    s['major'] = int(bt.barectf.configuration_file_major_version(fh))
            except Exception:  # noqa
                pass
        if judge(ctx, s, out, cstats, reported):
            ncorpus_valid += 1
    cli = cli_tie(ctx, scens)
    ncases, corr = correspondence(ctx, scens)
    g3, g2, s3, s2 = gens
    spell = {k: v for k, v in sorted(g3.stats.items()) if k.split(':')[0] in ('class', 'base', 'byte-order')}
    spell2 = {k: v for k, v in sorted(g2.stats.items()) if k.split(':')[0] in ('v2-class', 'v2-base', 'v2-byte-order', 'v2-encoding', 'v2-version')}
    missing = [c for c in G.ALL_CLS if ('class:' + c) not in g3.stats] + [b for b in G.BASES if ('base:' + b) not in g3.stats] + \
              [b for b in G.BYTE_ORDERS if ('byte-order:' + b) not in g3.stats]
    if missing:
        ctx.corr_broken.append('generator did not draw every spelling alias: missing %r' % missing)
    ctx.cov.update({
        'evaluations': len(jobs) + ncases,
        'distinct_nontrivial': nvalid + ncorpus_valid,
        'exhaustive': False,
        'rule': 'oracle: every generated or repository document that barectf.configuration_from_file accepts (valid = inside the '
                'quantifier) goes through clauses (a) effective(effective) byte-identical with NO inclusion directory, (b) effective '
                'document loads and is clean, (c) CodeGenerator output (headers, sources, metadata) identical after removing the lines '
                'containing `* on ` / `barectf_gen_date =` (uuid: auto skipped for (c)).  correspondence: Coq `effective` (vm_compute) '
                'vs the re-read real effective tree on the barectf 3 scenarios; distinct = valid documents',
        'oracle_scenarios': len(scens),
        'oracle_valid_documents': nvalid,
        'oracle_distribution': {k: stats[k] for k in sorted(stats)},
        'scenario_kinds': {k: kinds[k] for k in sorted(kinds)},
        'repo_corpus_files': len(corpus),
        'repo_corpus_valid': ncorpus_valid,
        'repo_corpus_distribution': {k: cstats[k] for k in sorted(cstats)},
        'spelling_aliases_drawn_v3': spell,
        'spelling_aliases_missing_v3': missing,
        'spelling_aliases_drawn_v2': spell2,
        'generator_distribution_v3': {k: v for k, v in sorted(g3.stats.items()) if k not in spell},
        'generator_distribution_v2': {k: v for k, v in sorted(g2.stats.items()) if k not in spell2},
        'c12_generator_distribution': {str(m): {k: g.stats[k] for k in sorted(g.stats)} for m, g in ((3, s3), (2, s2))},
        'correspondence': corr,
        'cli_show_effective_configuration': cli,
        'samples': samples_of(scens),
    })


def cli_tie(ctx, scens):
    """`barectf show-effective-configuration` (the real CLI) prints the API's text; run on its own
    output it prints the same bytes; `--indent-spaces` changes the text only, not the tree."""
    from common import sh
    valid = [s for s in scens if s['out']['status'] == 'valid' and s['out'].get('eff1')]
    sample = valid[:3] + ctx.rng.sample(valid, min(len(valid), ctx.pick(10, 60)))
    exe = '/venv/bin/barectf'
    n = bad = 0

    def one(s):
        cfg = os.path.join(s['path'], 'config.yaml')
        inc = []
        for d, _ in s['dirs']:
            inc += ['-I', os.path.join(s['path'], d)]
        rc, out = sh([exe, 'show-effective-configuration'] + inc + [cfg], timeout=120)
        if rc != 0 or out != s['out']['eff1'] + '\n':
            return 'CLI output differs from effective_configuration_file (rc %d)' % rc, out
        p2 = os.path.join(s['path'], 'cli-effective.yaml')
        with open(p2, 'w') as f:
            f.write(out)
        rc, out2 = sh([exe, 'show-effective-configuration', p2], timeout=120)
        if rc != 0 or out2 != out:
            return 'CLI run on its own output prints a different document (rc %d)' % rc, out2
        rc, out4 = sh([exe, 'show-effective-configuration', '--indent-spaces=4', p2], timeout=120)
        if rc != 0 or not T.same(O.load_tree(out4), O.load_tree(out)):
            return 'CLI --indent-spaces=4 changes the tree (rc %d)' % rc, out4
        return None, None

    with ThreadPoolExecutor(max_workers=8) as ex:
        for s, (err, out) in zip(sample, ex.map(one, sample)):
            n += 1
            if err:
                bad += 1
                if bad <= 2:
                    rp = replay_of(s, s['out'])
                    rp['cli_output'] = (out or '')[-4000:]
                    ctx.violation('barectf show-effective-configuration: ' + err, rp)
    return {'documents': n, 'failures': bad,
            'rule': 'real CLI (/venv/bin/barectf, PYTHONPATH=/repo) stdout == API text + new-line; CLI on its own output: same bytes; --indent-spaces=4: same tree'}


def samples_of(scens):
    res = []
    for s in scens:
        out = s.get('out') or {}
        if s['kind'] == 'doc3-split' and out.get('status') == 'valid' and len(res) < 3:
            res.append({'scenario': s['kind'], 'files': ['%s/%s' % (d, fn) for d, fs in s['dirs'] for fn in fs][:8],
                        'config_head': E.dump(s['root'], v3root=True)[:400]})
    return res


# ------------------------------------------------------------------ correspondence with the Coq model

def correspondence(ctx, scens):
    pkg = E.pkg_files(3)
    cases = []
    skipped = collections.Counter()
    for s in scens:
        if s['major'] != 3 or s.get('oracle_only'):
            continue
        out = s['out']
        if out['status'] == 'invalid' and out.get('why') != 'cfgerr':
            skipped['real-crash:' + str(out.get('why'))] += 1
            continue
        if not representable(s['root']) or any(not representable(t) for _, fs in s['dirs'] for t in fs.values()):
            skipped['not-a-string-keyed-tree'] += 1
            continue
        exp = None
        if out['status'] == 'valid':
            exp = out.get('tree')
            if exp is None or not representable(exp):
                skipped['effective-tree-not-representable'] += 1
                continue
        cases.append((s, exp))
    head = ['From Coq Require Import List String ZArith Bool.', 'Import ListNotations.',
            'From BT.Front Require Import Yaml YamlRes Effective.', 'Open Scope string_scope.', 'Open Scope list_scope.',
            'Definition pkg : entries := %s.' % coq_list('(%s, %s)' % (cstr('<package>/' + fn), to_coq(t)) for fn, t in pkg.items())]
    per = 12
    shards = [cases[i:i + per] for i in range(0, len(cases), per)]

    def run_shard(ix):
        rows = []
        for s, exp in shards[ix]:
            fs = coq_list('(%s, %s)' % (cstr('%s/%s' % (d, fn)), to_coq(t)) for d, files in s['dirs'] for fn, t in files.items())
            dirs = '[' + '; '.join([cstr(d) for d, _ in s['dirs']] + [cstr('<package>')]) + ']'
            rows.append('(%s ++ pkg, %s, %s, %s)' % (fs, dirs, to_coq(s['root']), 'None' if exp is None else '(Some %s)' % to_coq(exp)))
        body = head + ['Definition cases : list eff_case := [', ';\n'.join(rows), '].',
                       'Eval vm_compute in (codes cases, failing eff_case_fix 0%nat cases).']
        return run_cases_v('c11_eff_%d' % ix, '\n'.join(body) + '\n', ctx.scratch, timeout=1500)

    codes = collections.Counter()
    nfix_bad = 0
    nrun = 0
    first = {}
    with ThreadPoolExecutor(max_workers=14) as ex:
        for ix, (rc, out) in enumerate(ex.map(run_shard, range(len(shards)))):
            m = re.search(r'=\s*\(\s*\[(.*?)\]\s*,\s*\[(.*?)\]\s*\)\s*:\s*list nat \* list nat', out, re.S)
            if rc != 0 or not m:
                ctx.corr_broken.append('C11 model evaluation failed on shard %d: %s' % (ix, out[-400:]))
                continue
            cs = [int(t) for t in m.group(1).replace('\n', ' ').split(';') if t.strip()]
            bad = [int(t) for t in m.group(2).replace('\n', ' ').split(';') if t.strip()]
            if len(cs) != len(shards[ix]):
                ctx.corr_broken.append('C11 model evaluation: %d codes for %d cases (shard %d)' % (len(cs), len(shards[ix]), ix))
                continue
            nrun += len(cs)
            for j, c in enumerate(cs):
                codes[c] += 1
                if c in (1, 2, 4) and c not in first:
                    first[c] = shards[ix][j][0]
            for j in bad:
                nfix_bad += 1
                if 'fix' not in first:
                    first['fix'] = shards[ix][j][0]
    names = {0: 'agree', 1: 'trees-differ', 2: 'model-rejects-code-accepts', 3: 'model-accepts-code-rejects(allowed: gates are necessary conditions)',
             4: 'model-crash-or-fuel-code-accepts', 5: 'model-crash-code-rejects'}
    for c, txt in ((1, 'the Coq model `effective` and the real effective_configuration_file give different trees'),
                   (2, 'the Coq model `effective` rejects a document the real front end accepts'),
                   (4, 'the Coq model `effective` crashes / runs out of fuel on a document the real front end accepts')):
        if codes[c]:
            ctx.corr_broken.append('%s (%d cases)' % (txt, codes[c]))
            s = first[c]
            ctx.notes.append('first case (%s): %s' % (names[c], (s.get('raw_root') or E.dump(s['root'], v3root=True))[:1500]))
    if nfix_bad:
        ctx.corr_broken.append('Coq clean / model fixed point fails on %d REAL effective trees' % nfix_bad)
        s = first['fix']
        ctx.notes.append('first real effective tree that is not a clean fixed point of the model: %s' % (s['out'].get('eff1') or '')[:1500])
    corr = {'cases': len(cases), 'evaluated': nrun, 'outcomes': {names[c]: n for c, n in sorted(codes.items())},
            'real_effective_trees_not_clean_fixed_points_of_the_model': nfix_bad,
            'skipped': dict(skipped), 'shards': len(shards)}
    return nrun, corr
