"""Random barectf 3 YAML configurations (shared by the C13 / C14 / C15 / C19 checks).

A configuration is a plain Python dict tree = the YAML document; `yaml_text` prints it.  Only
constructs the documentation allows are produced (uuid: auto is never produced: S16).
The generator draws ONLY from the rng passed in (ctx.rng)."""
import copy
import os
import subprocess

import yaml

from common import ENV, PY, REPO

HEADER = '%YAML 1.2\n--- !<tag:barectf.org,2020/3/config>\n'

CTF_KEYWORDS = {'align', 'callsite', 'clock', 'enum', 'env', 'event', 'floating_point', 'integer', 'stream',
                'string', 'struct', 'trace', 'typealias', 'typedef', 'variant',
                # the rest of the documented list (rejected since /repo e... "reject every identifier which the documentation reserves")
                'const', 'char', 'double', 'float', 'int', 'long', 'short', 'signed', 'unsigned', 'void',
                '_Bool', '_Complex', '_Imaginary'}
RESERVED_PC = {'packet_size', 'content_size', 'timestamp_begin', 'timestamp_end', 'events_discarded', 'packet_seq_num'}


def ident(rng, used, lo=1, hi=7, pool=None):
    first = 'abcdefghijklmnopqrstuvwxyzABCXYZ_'
    rest = first + '0123456789'
    while True:
        if pool and rng.random() < 0.5:
            s = rng.choice(pool)
        else:
            s = rng.choice(first) + ''.join(rng.choice(rest) for _ in range(rng.randint(lo, hi) - 1))
        if s in used or s in CTF_KEYWORDS or s in RESERVED_PC or s.startswith('__') or s == '_':
            continue
        used.add(s)
        return s


def pow2(rng, lo=0, hi=6):
    return 1 << rng.randint(lo, hi)


def gen_int_ft(rng, signed=None, size=None, feature=False):
    if signed is None:
        signed = rng.random() < 0.4
    if size is None:
        size = rng.choice([1, 3, 7, 8, 9, 13, 16, 17, 24, 31, 32, 33, 48, 63, 64, rng.randint(1, 64)])
    ft = {'class': rng.choice(['sint', 'signed-int', 'signed-integer']) if signed else rng.choice(['uint', 'unsigned-int', 'unsigned-integer']),
          'size': size}
    if rng.random() < 0.6:
        ft['alignment'] = pow2(rng, 0, 6)
    if rng.random() < 0.4:
        ft['preferred-display-base'] = rng.choice(['bin', 'binary', 'oct', 'octal', 'dec', 'decimal', 'hex', 'hexadecimal'])
    return ft


LABELS = ['A', 'b c', 'quo"te', 'back\\slash', 'tab\there', 'zero', 'ÉTÉ', 'x' * 20, 'semi;colon', '', 'end\\', '"', '\\"', 'new\nline']


def gen_enum_ft(rng, labels_pool=None, hard_strings=True):
    signed = rng.random() < 0.5
    size = rng.choice([1, 4, 8, 12, 16, 32, 33, 64])
    lo, hi = (-(1 << (size - 1)), (1 << (size - 1)) - 1) if signed else (0, (1 << size) - 1)
    ft = {'class': rng.choice(['senum', 'signed-enum', 'signed-enumeration']) if signed else rng.choice(['uenum', 'unsigned-enum', 'unsigned-enumeration']),
          'size': size}
    if rng.random() < 0.5:
        ft['alignment'] = pow2(rng, 0, 6)
    if rng.random() < 0.3:
        ft['preferred-display-base'] = rng.choice(['bin', 'oct', 'dec', 'hex'])
    mappings = {}
    pool = [l for l in LABELS if hard_strings or all(32 <= ord(c) < 127 and c not in '"\\' for c in l)]
    for _ in range(rng.randint(1, 4)):
        label = rng.choice(pool) if rng.random() < 0.7 else 'L%d' % rng.randint(0, 99)
        if label in mappings:
            continue
        rgs = []
        for _ in range(rng.randint(1, 3)):
            a = rng.choice([lo, hi, 0 if lo <= 0 <= hi else lo, rng.randint(lo, hi)])
            if rng.random() < 0.5:
                rgs.append(a)
            else:
                b = rng.choice([hi, rng.randint(a, hi)])
                rgs.append([a, b])
        mappings[label] = rgs
    ft['mappings'] = mappings
    return ft


def gen_real_ft(rng, natural_only=False):
    size = rng.choice([32, 64])
    ft = {'class': 'real', 'size': size}
    if natural_only:
        ft['alignment'] = size
    elif rng.random() < 0.6:
        ft['alignment'] = rng.choice([size, size, 8, 16, 32, 64, 1])
    return ft


def gen_elem_ft(rng, depth, opts):
    r = rng.random()
    if r < 0.45:
        return gen_int_ft(rng)
    if r < 0.55:
        return gen_enum_ft(rng, hard_strings=opts.get('hard_strings', True))
    if r < 0.70:
        return gen_real_ft(rng, opts.get('natural_reals', False))
    if r < 0.82:
        return {'class': rng.choice(['str', 'string'])}
    if depth < 2:
        return {'class': 'static-array', 'length': rng.randint(0, 3), 'element-field-type': gen_elem_ft(rng, depth + 1, opts)}
    return gen_int_ft(rng)


def gen_member_ft(rng, opts):
    r = rng.random()
    if r < 0.12:
        return {'class': 'dynamic-array', 'element-field-type': gen_elem_ft(rng, 1, opts)}
    return gen_elem_ft(rng, 0, opts)


def gen_struct(rng, opts, lo=0, hi=4, used=None):
    used = set() if used is None else used
    members = []
    for _ in range(rng.randint(lo, hi)):
        members.append({ident(rng, used, pool=['x', 'len', 'msg', 'id', 'int', 'for', 'ts', 'ctx', 'a_b',
                                              # names barectf itself uses for packet header / event header members (valid user names elsewhere)
                                              'magic', 'uuid', 'stream_id', 'timestamp', 'magic', 'uuid', 'stream_id']): {'field-type': gen_member_ft(rng, opts)}})
    st = {'class': rng.choice(['struct', 'structure']), 'members': members}
    if rng.random() < 0.3:
        st['minimum-alignment'] = pow2(rng, 0, 6)
    return st


DESCRIPTIONS = ['plain', 'with "quotes"', 'back\\slash', 'trailing backslash \\', 'tab\tchar', 'unicode é ü 漢', '0', 'a;b /* c */ // d']
ENV_STRINGS = DESCRIPTIONS + ['', 'x' * 40]


def gen_clock(rng, opts):
    c = {}
    if rng.random() < 0.7:
        c['frequency'] = rng.choice([1, 1000, 1000000000, 2 ** 32, 2 ** 63 - 1, 2 ** 64 - 1, rng.randint(1, 10 ** 12)])
    if rng.random() < 0.5:
        c['precision'] = rng.choice([0, 1, 2 ** 64 - 1, rng.randint(0, 1000)])
    if rng.random() < 0.6:
        off = {}
        if rng.random() < 0.8:
            off['seconds'] = rng.choice([0, 1, 1434072888, 2 ** 63 - 1, rng.randint(0, 10 ** 10)])
        if rng.random() < 0.8:
            off['cycles'] = rng.choice([0, 1, 2 ** 64 - 1, rng.randint(0, 10 ** 10)])
        c['offset'] = off
    if rng.random() < 0.6:
        c['origin-is-unix-epoch'] = rng.random() < 0.5
    if rng.random() < 0.5:
        c['uuid'] = '%08x-%04x-%04x-%04x-%012x' % (rng.getrandbits(32), rng.getrandbits(16), rng.getrandbits(16), rng.getrandbits(16), rng.getrandbits(48))
    if rng.random() < 0.6:
        pool = DESCRIPTIONS if opts.get('hard_strings', True) else ['plain', 'other text', '0']
        c['description'] = rng.choice(pool)
    if rng.random() < 0.5:
        c['$c-type'] = rng.choice(['uint64_t', 'uint32_t', 'unsigned long', 'uint16_t', 'unsigned long long'] if not opts.get('ansi_ctypes') else ['uint64_t', 'uint32_t', 'unsigned long', 'uint16_t'])
    return c


def gen_config(rng, n_dst=(1, 3), n_ert=(1, 4), n_clk=(0, 2), **opts):
    """opts: hard_strings (quotes/backslashes/newlines in string values), natural_reals (only
    size-aligned reals: avoids S1), prefix (None | str | (iden, file)), byte_order."""
    used_types = set()
    clocks = {}
    used = set()
    for _ in range(rng.randint(*n_clk)):
        clocks[ident(rng, used, pool=['default', 'sys', 'clk', 'mono', 'A', 'a'])] = gen_clock(rng, opts)
    ndst = rng.randint(*n_dst)
    dsts = {}
    used = set()
    have_default = False
    for i in range(ndst):
        name = ident(rng, used, pool=['default', 'a', 'b', 'A', 'a_', 'a_b', 'a0', 'my_stream', 'ab'])
        d = {}
        clk = None
        if clocks and rng.random() < 0.8:
            clk = rng.choice(sorted(clocks))
            d['$default-clock-type-name'] = clk
        if not have_default and rng.random() < 0.4:
            d['$is-default'] = True
            have_default = True
        nert = rng.randint(*n_ert)
        feats = {}
        if rng.random() < 0.6:
            p = {}
            if rng.random() < 0.4:
                p['total-size-field-type'] = gen_int_ft(rng, False, rng.choice([16, 32, 64]))
                p['content-size-field-type'] = gen_int_ft(rng, False, p['total-size-field-type']['size'])
            if clk is not None and rng.random() < 0.5:
                p['beginning-timestamp-field-type'] = rng.choice([True, False, gen_int_ft(rng, False, rng.choice([32, 64]))])
            if clk is not None and rng.random() < 0.5:
                p['end-timestamp-field-type'] = rng.choice([True, False, gen_int_ft(rng, False, rng.choice([32, 64]))])
            if rng.random() < 0.5:
                p['discarded-event-records-counter-snapshot-field-type'] = rng.choice([True, False, gen_int_ft(rng, False, rng.choice([8, 16, 32, 64]))])
            if rng.random() < 0.5:
                p['sequence-number-field-type'] = rng.choice([True, False, gen_int_ft(rng, False, rng.choice([8, 16, 32, 64]))])
            feats['packet'] = p
        if rng.random() < 0.5:
            e = {}
            if rng.random() < 0.6:
                e['type-id-field-type'] = rng.choice([True, gen_int_ft(rng, False, rng.choice([8, 16, 32, 64]))] + ([False] if nert == 1 else []))
            if clk is not None and rng.random() < 0.5:
                e['timestamp-field-type'] = rng.choice([True, False, gen_int_ft(rng, False, rng.choice([32, 64]))])
            feats['event-record'] = e
        if feats:
            d['$features'] = feats
        if rng.random() < 0.4:
            d['packet-context-field-type-extra-members'] = gen_struct(rng, opts, 1, 3)['members']
        if rng.random() < 0.4:
            d['event-record-common-context-field-type'] = gen_struct(rng, opts, 1, 3)
        erts = {}
        eused = set()
        for _ in range(nert):
            en = ident(rng, eused, pool=['ev', 'a', 'b', 'B', 'a_', 'a_b', 'my_event', 'e0', 'e1', 'e10', 'e2', 'Z'])
            e = {}
            if rng.random() < 0.6:
                e['log-level'] = rng.choice([0, 0, 1, 7, 14, 2 ** 31, rng.randint(0, 15)])
            if rng.random() < 0.4:
                e['specific-context-field-type'] = gen_struct(rng, opts, 1, 3)
            # the payload is never empty so that every event record has at least one member
            e['payload-field-type'] = gen_struct(rng, opts, 1, 4)
            erts[en] = e
        d['event-record-types'] = erts
        dsts[name] = d
    tt = {}
    bo = opts.get('byte_order') or rng.choice(['native-le', 'trace-le', 'trace-be'])
    if bo == 'native-le':
        tt['native-byte-order'] = rng.choice(['le', 'little', 'little-endian'])
    else:
        tt['trace-byte-order'] = 'le' if bo == 'trace-le' else rng.choice(['be', 'big', 'big-endian'])
    has_uuid = rng.random() < 0.5
    if has_uuid:
        tt['uuid'] = '%08x-%04x-%04x-%04x-%012x' % (rng.getrandbits(32), rng.getrandbits(16), rng.getrandbits(16), rng.getrandbits(16), rng.getrandbits(48))
    if rng.random() < 0.5:
        f = {}
        if rng.random() < 0.5:
            f['magic-field-type'] = rng.choice([True, False, gen_int_ft(rng, False, 32)])
        if has_uuid and rng.random() < 0.5:
            f['uuid-field-type'] = rng.choice([True, False])
        if rng.random() < 0.5:
            f['data-stream-type-id-field-type'] = rng.choice([True, gen_int_ft(rng, False, rng.choice([8, 16, 32, 64]))] + ([False] if ndst == 1 else []))
        tt['$features'] = f
    if clocks:
        tt['clock-types'] = clocks
    tt['data-stream-types'] = dsts
    trace = {'type': tt}
    if rng.random() < 0.6:
        env = {}
        eused = set()
        for _ in range(rng.randint(0, 4)):
            k = ident(rng, eused, pool=['version', 'build', 'n', 'tracer_name', 'domain', 'my_env'])
            pool = ENV_STRINGS if opts.get('hard_strings', True) else ['plain', 'v1.2', '']
            env[k] = rng.choice([0, -1, 2 ** 63 - 1, -2 ** 63, rng.randint(-1000, 1000)]) if rng.random() < 0.5 else rng.choice(pool)
        trace['environment'] = env
    doc = {}
    prefix = opts.get('prefix')
    cg = {}
    if prefix is not None:
        cg['prefix'] = prefix if isinstance(prefix, str) else {'identifier': prefix[0], 'file-name': prefix[1]}
    if rng.random() < 0.4 or opts.get('header_defs'):
        cg['header'] = {'identifier-prefix-definition': opts.get('header_defs', rng.random() < 0.5),
                        'default-data-stream-type-name-definition': opts.get('header_defs', rng.random() < 0.5)}
    if cg:
        doc['options'] = {'code-generation': cg}
    doc['trace'] = trace
    return doc


def yaml_text(doc):
    return HEADER + yaml.safe_dump(doc, sort_keys=False, allow_unicode=True, default_flow_style=False, width=1000)


def permuted(doc, rng):
    """Same configuration with the data-stream-types, event-record-types and clock-types mappings
    listed in another order."""
    d = copy.deepcopy(doc)

    def shuffle_map(m):
        ks = list(m)
        rng.shuffle(ks)
        return {k: m[k] for k in ks}
    tt = d['trace']['type']
    if 'clock-types' in tt:
        tt['clock-types'] = shuffle_map(tt['clock-types'])
    for k in list(tt['data-stream-types']):
        dst = tt['data-stream-types'][k]
        dst['event-record-types'] = shuffle_map(dst['event-record-types'])
    tt['data-stream-types'] = shuffle_map(tt['data-stream-types'])
    # keep the key order of the trace type node itself
    return d


GEN_SNIPPET = r'''
import sys, os, io, warnings
warnings.filterwarnings('ignore')
import barectf
assert os.path.abspath(barectf.__file__).startswith(os.path.abspath(sys.argv[3])), barectf.__file__
with open(sys.argv[1]) as f:
    cfg = barectf.configuration_from_file(f, True, [], False)
cg = barectf.CodeGenerator(cfg)
for fl in cg.generate_c_headers() + cg.generate_c_sources() + [cg.generate_metadata_stream()]:
    with open(os.path.join(sys.argv[2], fl.name), 'w', encoding='utf-8') as out:
        out.write(fl.contents)
'''


def generate_subprocess(yaml_path, outdir, hashseed=None, timeout=120):
    """Generate in a FRESH process (API path: same calls as the CLI minus argument parsing)."""
    os.makedirs(outdir, exist_ok=True)
    env = dict(ENV)
    env['PYTHONHASHSEED'] = 'random' if hashseed is None else str(hashseed)
    p = subprocess.run([PY, '-W', 'ignore', '-c', GEN_SNIPPET, yaml_path, outdir, REPO], env=env,
                       capture_output=True, text=True, timeout=timeout)
    files = {}
    if p.returncode == 0:
        for n in sorted(os.listdir(outdir)):
            with open(os.path.join(outdir, n), encoding='utf-8') as f:
                files[n] = f.read()
    return p.returncode, p.stdout + p.stderr, files


def generate_cli(yaml_path, outdir, extra=(), hashseed=None, timeout=120):
    os.makedirs(outdir, exist_ok=True)
    env = dict(ENV)
    env['PYTHONHASHSEED'] = 'random' if hashseed is None else str(hashseed)
    p = subprocess.run([PY, '-W', 'ignore', '-c', 'import sys; sys.argv[0]="barectf"; from barectf.cli import _run; _run()',
                        'generate', '-c', outdir, '-H', outdir, '-m', outdir] + list(extra) + [yaml_path],
                       env=env, capture_output=True, text=True, timeout=timeout)
    files = {}
    if p.returncode == 0:
        for n in sorted(os.listdir(outdir)):
            with open(os.path.join(outdir, n), encoding='utf-8') as f:
                files[n] = f.read()
    return p.returncode, p.stdout + p.stderr, files


def strip_date(name, text):
    """The two places where the generation date appears (what the repository's own tests strip)."""
    import re
    text = re.sub(r'(?m)^ \* on \d{4}-\d\d-\d\dT[0-9:.]+\.$', ' * on DATE.', text)
    text = re.sub(r'(?m)^\tbarectf_gen_date = "[^"\n]*";$', '\tbarectf_gen_date = "DATE";', text)
    return text


def replay_docs(ctx):
    """Configurations stored in a replay file (./check CNN --replay FILE): the YAML documents found
    under the keys yaml / reference_yaml / yaml_a / yaml_b of its `replay` object."""
    if not getattr(ctx, 'replay', None):
        return None
    import json
    with open(ctx.replay) as f:
        r = json.load(f).get('replay', {})
    docs = []
    for k in ('yaml', 'reference_yaml', 'yaml_a', 'yaml_b'):
        t = r.get(k)
        if isinstance(t, str) and t.startswith('%YAML'):
            d = yaml.safe_load(t.split('\n', 2)[2])
            if d not in docs:
                docs.append(d)
    return docs
