"""C11 document generators.

DocGen3: barectf 3 documents exercising what the LAST stages of `_parse` touch:
  every spelling alias of field type classes (19 spellings), byte orders (6) and preferred display
  bases (8); null wherever the effective schema allows null (null resets); features given as a
  field type object / an alias name / true / false / null; log levels as integers / aliases /
  null; `$field-type-aliases` with alias chains and `$inherit` chains; `$log-level-aliases`;
  members in short (`- n: alias`) and long form; options; environment with strings PyYAML must
  quote.  A document can then be split over inclusion files (several levels, several directories).
DocGen2: small barectf 2 documents with the barectf 2 spellings (the conversion itself is C18's).
Every random choice comes from the rng given (ctx.rng).
"""
import collections
import copy

OD = collections.OrderedDict

UINT_CLS = ['uint', 'unsigned-int', 'unsigned-integer']
SINT_CLS = ['sint', 'signed-int', 'signed-integer']
UENUM_CLS = ['uenum', 'unsigned-enum', 'unsigned-enumeration']
SENUM_CLS = ['senum', 'signed-enum', 'signed-enumeration']
STR_CLS = ['str', 'string']
STRUCT_CLS = ['struct', 'structure']
ALL_CLS = UINT_CLS + SINT_CLS + UENUM_CLS + SENUM_CLS + ['real'] + STR_CLS + ['static-array', 'dynamic-array'] + STRUCT_CLS
BYTE_ORDERS = ['le', 'little', 'little-endian', 'be', 'big', 'big-endian']
BASES = ['bin', 'binary', 'oct', 'octal', 'dec', 'decimal', 'hex', 'hexadecimal']
STD_INT_ALIASES = ['uint8', 'byte', 'sint8', 'int8', 'uint16', 'word', 'sint16', 'int16', 'uint32', 'dword', 'sint32', 'int32',
                   'uint64', 'qword', 'sint64', 'int64', 'byte-packed-uint8']
STD_UINT_ALIASES = ['uint8', 'byte', 'uint16', 'word', 'uint32', 'dword', 'uint64', 'qword']
STD_REAL_ALIASES = ['float', 'double', 'byte-packed-float', 'bit-packed-double', 'bit-packed-float', 'byte-packed-double']
STD_LL = ['EMERG', 'ALERT', 'CRIT', 'ERR', 'WARNING', 'NOTICE', 'INFO', 'DEBUG_SYSTEM', 'DEBUG_PROGRAM', 'DEBUG_PROCESS',
          'DEBUG_MODULE', 'DEBUG_UNIT', 'DEBUG_FUNCTION', 'DEBUG_LINE', 'DEBUG']
ODD_STRINGS = ['yes', 'no', 'on', 'null', '~', '1', '0x1f', '1.5', 'a: b', '- x', ' lead', 'trail ', 'two\nlines', 'q"uote', "it's", '', '#c',
               'true', '2001-01-01', '!tag', '&a', '*a', '%d', 'é', '{x}', '[y]', 'plain']


class DocGen3:
    def __init__(self, rng):
        self.r = rng
        self.stats = collections.Counter()

    # ------------------------------------------------------------ helpers
    def maybe_null(self, p=0.12):
        return self.r.random() < p

    def seen(self, kind, val):
        self.stats['%s:%s' % (kind, val)] += 1
        return val

    def cls(self, pool):
        return self.seen('class', self.r.choice(pool))

    def put_opt(self, node, key, gen, p_present=0.5, p_null=0.15):
        r = self.r
        if r.random() < p_present:
            if r.random() < p_null:
                node[key] = None
                self.stats['null:' + key] += 1
            else:
                node[key] = gen()

    # ------------------------------------------------------------ field types
    def int_ft(self, unsigned=None, size=None):
        r = self.r
        if unsigned is None:
            unsigned = r.random() < 0.6
        ft = OD([('class', self.cls(UINT_CLS if unsigned else SINT_CLS)), ('size', size or r.choice([1, 3, 8, 13, 16, 24, 32, 48, 64]))])
        self.put_opt(ft, 'alignment', lambda: r.choice([1, 2, 4, 8, 16, 32, 64]), 0.5)
        self.put_opt(ft, 'preferred-display-base', lambda: self.seen('base', r.choice(BASES)), 0.6)
        if r.random() < 0.3:
            items = list(ft.items())
            r.shuffle(items)
            ft = OD(items)
        return ft

    def enum_ft(self, unsigned=None):
        r = self.r
        if unsigned is None:
            unsigned = r.random() < 0.6
        ft = OD([('class', self.cls(UENUM_CLS if unsigned else SENUM_CLS)), ('size', r.choice([4, 8, 16, 32]))])
        self.put_opt(ft, 'alignment', lambda: r.choice([1, 8, 16]), 0.4)
        self.put_opt(ft, 'preferred-display-base', lambda: self.seen('base', r.choice(BASES)), 0.5)
        lo = 0 if unsigned else -5
        maps = OD()
        for l in r.sample(['A', 'B', 'class', 'members', 'preferred-display-base', 'a b', '$inherit', 'null', 'C'], r.randrange(1, 4)):
            maps[l] = [r.choice([r.randrange(lo, 7), [r.randrange(lo, 3), r.randrange(3, 15)]]) for _ in range(r.randrange(1, 3))]
        ft['mappings'] = maps
        return ft

    def real_ft(self):
        r = self.r
        ft = OD([('class', self.cls(['real'])), ('size', r.choice([32, 64]))])
        self.put_opt(ft, 'alignment', lambda: r.choice([1, 8, 32, 64]), 0.5)
        return ft

    def str_ft(self):
        return OD([('class', self.cls(STR_CLS))])

    def scalar_ft(self):
        x = self.r.random()
        if x < 0.4:
            return self.int_ft()
        if x < 0.6:
            return self.enum_ft()
        if x < 0.8:
            return self.real_ft()
        return self.str_ft()

    def array_ft(self, depth=0, aliases=()):
        r = self.r
        dyn = depth == 0 and r.random() < 0.4
        if r.random() < 0.3 and depth < 2:
            elem = self.array_ft(depth + 1, aliases)
        elif aliases and r.random() < 0.35:
            elem = r.choice(aliases)
            self.stats['alias-use:element'] += 1
        else:
            elem = self.scalar_ft()
        if dyn:
            ft = OD([('class', self.cls(['dynamic-array'])), ('element-field-type', elem)])
        else:
            ft = OD([('class', self.cls(['static-array'])), ('length', r.randrange(0, 4)), ('element-field-type', elem)])
            if r.random() < 0.3:
                ft.move_to_end('length')
        return ft

    def member_ft(self, aliases):
        """A field type for a structure member: object, alias name, or inheriting object."""
        r = self.r
        x = r.random()
        if aliases and x < 0.3:
            self.stats['alias-use:member'] += 1
            return r.choice(aliases)
        if x < 0.4 and self.int_aliases:
            self.stats['inherit-use:member'] += 1
            ft = OD([('$inherit', r.choice(self.int_aliases))])
            self.put_opt(ft, 'preferred-display-base', lambda: self.seen('base', r.choice(BASES)), 0.7, 0.25)
            self.put_opt(ft, 'alignment', lambda: r.choice([8, 16, 32]), 0.5, 0.3)
            return ft
        if x < 0.6:
            return self.array_ft(0, aliases)
        return self.scalar_ft()

    def members(self, aliases, prefix='m', nmax=4, allow_empty=True):
        r = self.r
        ms = []
        for i in range(r.randrange(0 if allow_empty else 1, nmax + 1)):
            name = '%s%d' % (prefix, i)
            ft = self.member_ft(aliases)
            if type(ft) is str and r.random() < 0.6:
                ms.append(OD([(name, ft)]))
                self.stats['member-form:short'] += 1
            else:
                ms.append(OD([(name, OD([('field-type', ft)]))]))
                self.stats['member-form:long'] += 1
        return ms

    def struct_ft(self, aliases, prefix='m', allow_empty=True):
        r = self.r
        ft = OD([('class', self.cls(STRUCT_CLS))])
        self.put_opt(ft, 'minimum-alignment', lambda: r.choice([1, 8, 16, 64]), 0.3, 0.3)
        if r.random() < 0.9:
            if allow_empty and not self.has_aliases and r.random() < 0.2:
                ft['members'] = None
                self.stats['null:members'] += 1
            else:
                ft['members'] = self.members(aliases, prefix, allow_empty=allow_empty)
        return ft

    def struct_pos(self, aliases, struct_aliases, prefix, allow_empty=True):
        """Value of a structure field type position: object / alias name / inheriting object."""
        r = self.r
        x = r.random()
        if struct_aliases and x < 0.2:
            self.stats['alias-use:struct-position'] += 1
            return r.choice(struct_aliases)
        if struct_aliases and x < 0.3:
            self.stats['inherit-use:struct-position'] += 1
            ft = OD([('$inherit', r.choice(struct_aliases))])
            if r.random() < 0.7:
                ft['members'] = self.members(aliases, prefix + 'x', 2)
            self.put_opt(ft, 'minimum-alignment', lambda: r.choice([8, 32]), 0.3, 0.4)
            return ft
        return self.struct_ft(aliases, prefix, allow_empty)

    def feature(self, kinds, uint_aliases, size=None):
        """Feature value: 'obj' | 'alias' | True | False | None."""
        r = self.r
        k = r.choice(kinds)
        self.stats['feature-form:' + str(k)] += 1
        if k == 'obj':
            x = r.random()
            if x < 0.75 or size is not None:
                return self.int_ft(True, size)
            ft = self.enum_ft(True)
            return ft
        if k == 'alias':
            if size is None:
                return r.choice(uint_aliases)
            return 'uint32' if 'uint32' in uint_aliases else self.int_ft(True, size)
        return k

    # ------------------------------------------------------------ the document
    def document(self):
        r = self.r
        self.stats['documents'] += 1
        use_std = r.random() < 0.8
        tt = OD()
        incs = []
        if use_std:
            incs = ['stdint.yaml']
            for f in ('stdmisc.yaml', 'stdreal.yaml', 'lttng-ust-log-levels.yaml'):
                if r.random() < 0.6:
                    incs.append(f)
            r.shuffle(incs)
            tt['$include'] = incs if (len(incs) > 1 or r.random() < 0.5) else incs[0]
        bo_key = r.choice(['native-byte-order', 'native-byte-order', 'trace-byte-order'])
        tt[bo_key] = self.seen('byte-order', r.choice(BYTE_ORDERS))
        self.stats['byte-order-key:' + bo_key] += 1
        self.put_opt(tt, 'uuid', lambda: r.choice(['79e49040-21b5-42d4-a83b-646f78666b62'] * 6 + ['auto']), 0.5, 0.2)
        # ---- aliases
        aliases, struct_aliases, uint_aliases = [], [], []
        self.int_aliases = []
        al = None
        mode = r.random()
        self.has_aliases = use_std or mode >= 0.16
        if 'stdint.yaml' in incs:
            aliases += STD_INT_ALIASES
            uint_aliases += STD_UINT_ALIASES
            self.int_aliases += STD_INT_ALIASES
        if 'stdmisc.yaml' in incs:
            aliases += ['string', 'str']
        if 'stdreal.yaml' in incs:
            aliases += STD_REAL_ALIASES
        if mode < 0.08 and not use_std:
            tt['$field-type-aliases'] = None
            self.stats['aliases:null'] += 1
        elif mode < 0.16 and not use_std:
            self.stats['aliases:absent'] += 1
        else:
            al = OD()
            # own integer aliases, chains of names, chains of $inherit
            al['my-u'] = self.int_ft(True)
            al['my-s'] = self.int_ft(False)
            depth = r.randrange(0, 5)
            prev = 'my-u'
            for i in range(depth):
                al['cu%d' % i] = prev
                prev = 'cu%d' % i
            self.stats['alias-chain-depth:%d' % depth] += 1
            uint_aliases += ['my-u', prev]
            idepth = r.randrange(0, 4)
            prev_i = r.choice(['my-u', 'my-s', prev])
            for i in range(idepth):
                p = OD([('$inherit', prev_i)])
                self.put_opt(p, 'preferred-display-base', lambda: self.seen('base', r.choice(BASES)), 0.7, 0.3)
                self.put_opt(p, 'alignment', lambda: r.choice([8, 16, 64]), 0.5, 0.3)
                self.put_opt(p, 'size', lambda: r.choice([8, 16, 32, 64]), 0.4, 0.0)
                al['hi%d' % i] = p
                prev_i = 'hi%d' % i
            self.stats['inherit-chain-depth:%d' % idepth] += 1
            al['my-e'] = self.enum_ft()
            if r.random() < 0.5:
                al['my-e2'] = OD([('$inherit', 'my-e'), ('mappings', OD([('Z', [1, [2, 3]]), ('A', [9])]))])
            al['my-str'] = r.choice([self.str_ft(), 'my-str0'])
            al['my-str0'] = self.str_ft()
            al['my-real'] = self.real_ft()
            base_aliases = ['my-u', 'my-s', prev, prev_i, 'my-e', 'my-str', 'my-real'] + (['my-e2'] if 'my-e2' in al else [])
            self.int_aliases += ['my-u', 'my-s', prev, prev_i]
            al['my-arr'] = self.array_ft(0, base_aliases)
            if r.random() < 0.5:
                al['my-arr2'] = OD([('$inherit', 'my-arr')])
                if al['my-arr']['class'] == 'static-array':
                    al['my-arr2']['length'] = 5
            aliases += base_aliases + ['my-arr'] + (['my-arr2'] if 'my-arr2' in al else [])
            al['my-st'] = self.struct_ft(aliases, 'b', allow_empty=False)
            sdepth = r.randrange(0, 4)
            prev_s = 'my-st'
            for i in range(sdepth):
                p = OD([('$inherit', prev_s)])
                if r.random() < 0.8:
                    ms = self.members(aliases, 's%d_' % i, 2)
                    # override an existing member of the root structure now and then
                    root_ms = al['my-st'].get('members') or []
                    if root_ms and r.random() < 0.5:
                        (n, mv), = r.choice(root_ms).items()
                        mft = mv.get('field-type') if type(mv) is OD else None
                        if type(mft) is OD and mft.get('class') in UINT_CLS + SINT_CLS:
                            # mappings merge: a partial object over an integer member object
                            ms.append(OD([(n, OD([('field-type', OD([('class', mft['class']), ('preferred-display-base', r.choice(BASES + [None])), ('alignment', r.choice([8, 16, None]))]))]))]))
                            self.stats['inherit:member-override'] += 1
                    p['members'] = ms
                self.put_opt(p, 'minimum-alignment', lambda: r.choice([8, 32]), 0.4, 0.4)
                al['hs%d' % i] = p
                prev_s = 'hs%d' % i
            self.stats['struct-inherit-chain-depth:%d' % sdepth] += 1
            struct_aliases = ['my-st', prev_s]
            if r.random() < 0.2:
                al['unused-null'] = None
            items = list(al.items())
            if r.random() < 0.5:
                r.shuffle(items)
            tt['$field-type-aliases'] = OD(items)
            self.stats['aliases:own'] += 1
        if not uint_aliases:
            uint_aliases = None
        # ---- log level aliases
        ll_names = list(STD_LL) if 'lttng-ust-log-levels.yaml' in incs else []
        x = r.random()
        if x < 0.5:
            lla = OD([(n, r.randrange(0, 20)) for n in r.sample(['LA', 'LB', 'L C', 'crit'], r.randrange(1, 4))])
            if r.random() < 0.15:
                lla['LNULL'] = None
            tt['$log-level-aliases'] = lla
            ll_names += list(lla)
            self.stats['log-level-aliases:own'] += 1
        elif x < 0.6:
            tt['$log-level-aliases'] = None
            ll_names = []
            self.stats['log-level-aliases:null'] += 1
        ndst = r.choice([1, 1, 2, 3])
        # ---- trace type features
        fk = ['obj', True, False, None] + (['alias'] if uint_aliases else [])
        if r.random() < 0.6:
            if self.maybe_null(0.1):
                tt['$features'] = None
                self.stats['null:$features'] += 1
            else:
                f = OD()
                if r.random() < 0.6:
                    f['magic-field-type'] = self.feature(['obj', True, False, None] + (['alias'] if 'stdint.yaml' in incs else []), uint_aliases, size=32)
                if r.random() < 0.6:
                    k = r.choice([True, False, None, 'obj'])
                    self.stats['feature-form:uuid:' + str(k)] += 1
                    if k == 'obj':
                        e = OD([('class', self.cls(UINT_CLS)), ('size', 8)])
                        self.put_opt(e, 'alignment', lambda: 8, 0.5, 0.3)
                        f['uuid-field-type'] = OD([('class', 'static-array'), ('length', 16), ('element-field-type', e)])
                    else:
                        f['uuid-field-type'] = k
                if r.random() < 0.6:
                    f['data-stream-type-id-field-type'] = self.feature([k for k in fk if k is not False or ndst == 1], uint_aliases)
                tt['$features'] = f
        # ---- clock types
        clk_names = []
        if r.random() < 0.7:
            clks = OD()
            for n in r.sample(['clk', 'sys_clock', 'class', 'c2'], r.randrange(1, 3)):
                c = OD()
                self.put_opt(c, 'frequency', lambda: r.choice([1, 1000, 1000000000, 8000000]), 0.6)
                self.put_opt(c, 'uuid', lambda: 'c6e53f36-7b2f-4c6c-8d5b-0c2a5a0e1f11', 0.3)
                self.put_opt(c, 'description', lambda: r.choice(ODD_STRINGS), 0.5)
                self.put_opt(c, 'precision', lambda: r.randrange(0, 20), 0.4)
                self.put_opt(c, 'origin-is-unix-epoch', lambda: r.random() < 0.5, 0.5)
                self.put_opt(c, '$c-type', lambda: r.choice(['uint64_t', 'unsigned long', 'uint32_t', 'unsigned long long']), 0.5)
                if r.random() < 0.5:
                    if self.maybe_null(0.2):
                        c['offset'] = None
                    else:
                        o = OD()
                        self.put_opt(o, 'seconds', lambda: r.randrange(0, 10 ** 9), 0.6, 0.25)
                        self.put_opt(o, 'cycles', lambda: r.randrange(0, 10 ** 6), 0.6, 0.25)
                        c['offset'] = o
                clks[n] = c
                clk_names.append(n)
            tt['clock-types'] = clks
        # ---- data stream types
        dsts = OD()
        default_set = False
        for di in range(ndst):
            dn = r.choice(['ds', 'stream', 'my_ds', 'S']) + str(di)
            d = OD()
            if not default_set and r.random() < 0.6:
                d['$is-default'] = True
                default_set = True
            elif r.random() < 0.3:
                d['$is-default'] = r.choice([False, None])
            has_clk = False
            if clk_names and r.random() < 0.75:
                d['$default-clock-type-name'] = r.choice(clk_names)
                has_clk = True
            elif r.random() < 0.15:
                d['$default-clock-type-name'] = None
            nert = r.choice([1, 1, 2, 3])
            tsk = fk if has_clk else [False, None]
            if r.random() < 0.7:
                if self.maybe_null(0.08):
                    d['$features'] = None
                else:
                    f = OD()
                    if r.random() < 0.75:
                        if self.maybe_null(0.1):
                            f['packet'] = None
                        else:
                            p = OD()
                            req = ['obj', True, None] + (['alias'] if uint_aliases else [])
                            if r.random() < 0.5:
                                p['total-size-field-type'] = self.feature(req, uint_aliases, size=r.choice([32, 64]))
                            if r.random() < 0.5:
                                p['content-size-field-type'] = self.feature(req, uint_aliases, size=r.choice([16, 32]))
                            if r.random() < 0.5:
                                p['beginning-timestamp-field-type'] = self.feature(tsk, uint_aliases)
                            if r.random() < 0.5:
                                p['end-timestamp-field-type'] = self.feature(tsk, uint_aliases)
                            if r.random() < 0.5:
                                p['discarded-event-records-counter-snapshot-field-type'] = self.feature(fk, uint_aliases)
                            if r.random() < 0.5:
                                p['sequence-number-field-type'] = self.feature(fk, uint_aliases)
                            f['packet'] = p
                    if r.random() < 0.75:
                        if self.maybe_null(0.1):
                            f['event-record'] = None
                        else:
                            e = OD()
                            if r.random() < 0.6:
                                e['type-id-field-type'] = self.feature([k for k in fk if k is not False or nert == 1], uint_aliases)
                            if r.random() < 0.6:
                                e['timestamp-field-type'] = self.feature(tsk, uint_aliases)
                            f['event-record'] = e
                    d['$features'] = f
            if r.random() < 0.45:
                if self.maybe_null(0.15):
                    d['packet-context-field-type-extra-members'] = None
                else:
                    d['packet-context-field-type-extra-members'] = self.members(aliases, 'pc%d_' % di, 3)
            if r.random() < 0.45:
                if self.maybe_null(0.15):
                    d['event-record-common-context-field-type'] = None
                else:
                    d['event-record-common-context-field-type'] = self.struct_pos(aliases, struct_aliases, 'cc')
            erts = OD()
            for ei in range(nert):
                en = r.choice(['ev', 'my_event', 'E', 'class']) + str(ei)
                e = OD()
                if r.random() < 0.7:
                    k = r.choice(['int', 'int', 'alias', None] if ll_names else ['int', None])
                    self.stats['log-level-form:' + str(k)] += 1
                    e['log-level'] = r.choice([0, 1, 7, 14, 255]) if k == 'int' else (r.choice(ll_names) if k == 'alias' else None)
                if r.random() < 0.4:
                    e['specific-context-field-type'] = None if self.maybe_null(0.15) else self.struct_pos(aliases, struct_aliases, 'sc')
                # a non-empty payload keeps the event record type non-empty whatever the rest is
                e['payload-field-type'] = self.struct_pos(aliases, struct_aliases[:1] if struct_aliases else [], 'p', allow_empty=False)
                if r.random() < 0.3:
                    items = list(e.items())
                    r.shuffle(items)
                    e = OD(items)
                erts[en] = e
            d['event-record-types'] = erts
            if r.random() < 0.3:
                items = list(d.items())
                r.shuffle(items)
                d = OD(items)
            dsts[dn] = d
        tt['data-stream-types'] = dsts
        trace = OD()
        if r.random() < 0.6:
            if self.maybe_null(0.2):
                trace['environment'] = None
                self.stats['null:environment'] += 1
            else:
                trace['environment'] = OD([(k, r.choice([r.randrange(-5, 100), r.choice(ODD_STRINGS)]))
                                           for k in r.sample(['e1', 'version', 'class', '_x', 'Null'], r.randrange(0, 4))])
        trace['type'] = tt
        if r.random() < 0.3:
            trace.move_to_end('environment') if 'environment' in trace else None
        root = OD()
        if r.random() < 0.5:
            opts = OD()
            if r.random() < 0.85:
                cg = OD()
                if r.random() < 0.7:
                    cg['prefix'] = r.choice(['bt', 'my_prefix', OD([('identifier', 'pfx_'), ('file-name', 'pfx-files')])])
                if r.random() < 0.6:
                    h = OD()
                    if r.random() < 0.7:
                        h['identifier-prefix-definition'] = r.random() < 0.5
                    if r.random() < 0.7:
                        h['default-data-stream-type-name-definition'] = r.random() < 0.5
                    cg['header'] = h
                opts['code-generation'] = cg
            root['options'] = opts
        root['trace'] = trace
        if r.random() < 0.2:
            root.move_to_end('options') if 'options' in root else None
        return root

    # ------------------------------------------------------------ inclusion splitting
    def split(self, root, max_level=3, ndirs=2):
        """Move parts of the includable objects of `root` into inclusion files (recursively).
        Returns (new root, dirs = [(dir id, {file name: tree})])."""
        r = self.r
        root = copy.deepcopy(root)
        dirs = [('d%d' % i, OD()) for i in range(ndirs)]
        self.nfile = 0
        self.max_level_used = 0

        def factor(node, kind, level):
            """Split node (an OD of the given kind) into (file content, remaining node)."""
            if level > max_level or len(node) == 0:
                return node
            keys = [k for k in node if k != '$include']
            if not keys:
                return node
            moved = r.sample(keys, r.randrange(1, len(keys) + 1))
            content = OD((k, copy.deepcopy(node[k])) for k in keys if k in moved)
            rest = OD((k, v) for k, v in node.items() if k not in moved)
            # sometimes the including object keeps (overrides) a scalar the file also has, or resets it with null
            for k in moved:
                v = node[k]
                if type(v) in (int, str, bool) and r.random() < 0.3:
                    rest[k] = v
                    content[k] = self.other_scalar(v, k)
                    self.stats['split:override-scalar'] += 1
            self.nfile += 1
            fname = '%s-%d.yaml' % (kind, self.nfile)
            if r.random() < 0.15:
                fname = 'sub/' + fname
            self.max_level_used = max(self.max_level_used, level)
            self.stats['split:%s:level%d' % (kind, level)] += 1
            # the file may itself include a further file
            if r.random() < 0.5:
                content = factor(content, kind, level + 1)
            home = r.randrange(len(dirs))
            dirs[home][1][fname] = content
            if len(dirs) > 1 and r.random() < 0.25:
                # shadowed copy in a later directory must lose; in an earlier directory it would win, so only later ones
                for j in range(home + 1, len(dirs)):
                    dirs[j][1][fname] = OD([('zzz-shadowed', 1)])
                    self.stats['split:shadowed'] += 1
                    break
            inc = rest.get('$include')
            new_inc = [fname]
            if inc is not None:
                old = [inc] if type(inc) is str else list(inc)
                new_inc = old + [fname]
            elif r.random() < 0.4:
                new_inc = fname
            items = [(k, v) for k, v in rest.items() if k != '$include']
            pos = r.randrange(0, len(items) + 1)
            items.insert(pos, ('$include', new_inc))
            return OD(items)

        tt = root['trace']['type']
        for dn in list(tt['data-stream-types']):
            d = tt['data-stream-types'][dn]
            for en in list(d['event-record-types']):
                if r.random() < 0.35:
                    d['event-record-types'][en] = factor(d['event-record-types'][en], 'ert', 1)
            if r.random() < 0.35:
                tt['data-stream-types'][dn] = factor(d, 'dst', 1)
        for cn in list(tt.get('clock-types') or []):
            if r.random() < 0.4:
                tt['clock-types'][cn] = factor(tt['clock-types'][cn], 'clk', 1)
        if r.random() < 0.4:
            root['trace']['type'] = factor(tt, 'tt', 1)
        if r.random() < 0.3:
            root['trace'] = factor(root['trace'], 'trace', 1)
        self.stats['split:max-level:%d' % self.max_level_used] += 1
        self.stats['split:files:%d' % min(self.nfile, 8)] += 1
        return root, dirs

    def other_scalar(self, v, k):
        if type(v) is bool:
            return not v
        if type(v) is int:
            return v + 1 if k not in ('size',) else v
        if k in ('native-byte-order', 'trace-byte-order'):
            return self.r.choice(BYTE_ORDERS)
        if k == 'class':
            return v
        return v


# ====================================================================== barectf 2

V2_INT_CLS = ['int', 'integer']
V2_REAL_CLS = ['flt', 'float', 'floating-point']
V2_ENUM_CLS = ['enum', 'enumeration']
V2_STR_CLS = ['str', 'string']
V2_STRUCT_CLS = ['struct', 'structure']
V2_ENCODINGS = ['utf8', 'UTF8', 'utf-8', 'UTF-8', 'Utf-8', 'ascii', 'Ascii', 'ASCII', 'none', 'None', 'NONE']


class DocGen2:
    def __init__(self, rng):
        self.r = rng
        self.stats = collections.Counter()

    def seen(self, kind, val):
        self.stats['v2-%s:%s' % (kind, val)] += 1
        return val

    def put_opt(self, node, key, gen, p=0.5, p_null=0.15):
        if self.r.random() < p:
            node[key] = None if self.r.random() < p_null else gen()

    def int_ft(self, signed=None, size=None):
        r = self.r
        ft = OD([('class', self.seen('class', r.choice(V2_INT_CLS))), ('size', size or r.choice([1, 5, 8, 16, 32, 64]))])
        if signed is None:
            self.put_opt(ft, 'signed', lambda: r.random() < 0.5)
        elif signed or r.random() < 0.5:
            ft['signed'] = signed
        self.put_opt(ft, 'align', lambda: r.choice([1, 8, 16, 32]))
        self.put_opt(ft, 'base', lambda: self.seen('base', r.choice(BASES)), 0.5)
        self.put_opt(ft, 'encoding', lambda: self.seen('encoding', r.choice(V2_ENCODINGS)), 0.2)
        return ft

    def member_ft(self, aliases, depth=0):
        r = self.r
        x = r.random()
        if x < 0.25:
            return r.choice(aliases)
        if x < 0.45:
            return self.int_ft()
        if x < 0.55:
            ft = OD([('class', self.seen('class', r.choice(V2_REAL_CLS))), ('size', r.choice([OD([('exp', 8), ('mant', 24)]), OD([('exp', 11), ('mant', 53)])]))])
            self.put_opt(ft, 'align', lambda: r.choice([8, 32, 64]))
            return ft
        if x < 0.65:
            ft = OD([('class', self.seen('class', r.choice(V2_STR_CLS)))])
            self.put_opt(ft, 'encoding', lambda: self.seen('encoding', r.choice(V2_ENCODINGS)), 0.4)
            return ft
        if x < 0.8:
            vt = r.choice(['uint8', 'int16', self.int_ft(size=8)])
            ms = [r.choice(['a', 'b', OD([('label', 'c'), ('value', 7)]), OD([('label', 'd e'), ('value', [9, 11])])]) for _ in range(r.randrange(1, 4))]
            return OD([('class', self.seen('class', r.choice(V2_ENUM_CLS))), ('value-type', vt), ('members', ms)])
        if depth < 2:
            ln = r.choice([0, 1, 3, 'dynamic']) if depth == 0 else r.choice([1, 2])
            et = self.member_ft(aliases, depth + 1)
            if ln == 'dynamic' and (type(et) is OD and et.get('class') == 'array'):
                ln = 2
            return OD([('class', self.seen('class', 'array')), ('length', ln), ('element-type', et)])
        return self.int_ft()

    def struct_ft(self, aliases, prefix, nonempty=False):
        r = self.r
        ft = OD([('class', self.seen('class', r.choice(V2_STRUCT_CLS)))])
        self.put_opt(ft, 'min-align', lambda: r.choice([1, 8, 32]), 0.3)
        ft['fields'] = OD([('%s%d' % (prefix, i), self.member_ft(aliases)) for i in range(r.randrange(1 if nonempty else 0, 4))])
        return ft

    def document(self):
        r = self.r
        self.stats['v2-documents'] += 1
        aliases = ['uint8', 'uint16', 'uint32', 'uint64', 'int8', 'int32', 'byte', 'string', 'float', 'double', 'my-int', 'my-int2']
        meta = OD([('$include', ['stdint.yaml', 'stdfloat.yaml', 'stdmisc.yaml'] + (['lttng-ust-log-levels.yaml'] if r.random() < 0.5 else []))])
        has_ll = 'lttng-ust-log-levels.yaml' in meta['$include']
        meta['type-aliases'] = OD([('my-int', self.int_ft()),
                                   ('my-int2', OD([(r.choice(['$inherit', 'inherit']), 'my-int'), ('base', self.seen('base', r.choice(BASES)))]))])
        if r.random() < 0.5:
            meta['$log-levels'] = OD([('LA', 3), ('LB', 0)])
        ll_names = (['LA', 'LB'] if '$log-levels' in meta else []) + (['EMERG', 'DEBUG', 'WARNING'] if has_ll else [])
        if r.random() < 0.5:
            meta['env'] = OD([(k, r.choice([r.randrange(-3, 50), r.choice(ODD_STRINGS)])) for k in r.sample(['e1', 'ver', 'x_y'], r.randrange(0, 3))])
        nstream = r.choice([1, 1, 2])
        clk = r.random() < 0.6
        if clk:
            c = OD()
            self.put_opt(c, 'freq', lambda: r.choice([1000, 1000000000]))
            self.put_opt(c, 'description', lambda: r.choice(ODD_STRINGS))
            self.put_opt(c, 'error-cycles', lambda: r.randrange(0, 9))
            self.put_opt(c, 'absolute', lambda: r.random() < 0.5)
            self.put_opt(c, '$return-ctype', lambda: r.choice(['uint64_t', 'unsigned long']))
            if r.random() < 0.4:
                c['offset'] = OD([('seconds', r.randrange(0, 99)), ('cycles', r.randrange(0, 99))])
            meta['clocks'] = OD([('clk', c)])
        clk_int = OD([('class', 'int'), ('size', 64), ('property-mappings', [OD([('type', 'clock'), ('name', 'clk'), ('property', 'value')])])])
        trace = OD([('byte-order', self.seen('byte-order', r.choice(BYTE_ORDERS)))])
        self.put_opt(trace, 'uuid', lambda: '79e49040-21b5-42d4-a83b-646f78666b62', 0.4)
        ph = OD()
        if r.random() < 0.7:
            ph['magic'] = r.choice(['uint32', OD([('class', 'int'), ('size', 32)])])
        if 'uuid' in trace and trace['uuid'] and r.random() < 0.6:
            ph['uuid'] = OD([('class', 'array'), ('length', 16), ('element-type', 'uint8')])
        if nstream > 1 or r.random() < 0.5:
            ph['stream_id'] = r.choice(['uint8', 'uint16', self.int_ft(False, 8)])
        if ph or r.random() < 0.5:
            trace['packet-header-type'] = OD([('class', self.seen('class', r.choice(V2_STRUCT_CLS))), ('fields', ph)])
        meta['trace'] = trace
        streams = OD()
        for si in range(nstream):
            s = OD()
            if nstream > 1 and si == 0 and r.random() < 0.6:
                s['$default'] = True
            pc = OD([('packet_size', r.choice(['uint32', 'uint64'])), ('content_size', r.choice(['uint32', 'uint16']))])
            if clk and r.random() < 0.6:
                pc['timestamp_begin'] = copy.deepcopy(clk_int)
                pc['timestamp_end'] = copy.deepcopy(clk_int)
            if r.random() < 0.4:
                pc['events_discarded'] = r.choice(['uint16', 'uint32'])
            if r.random() < 0.3:
                pc['extra%d' % si] = self.member_ft(aliases)
            s['packet-context-type'] = OD([('class', 'struct'), ('fields', pc)])
            nev = r.choice([1, 2, 3])
            eh = OD()
            if nev > 1 or r.random() < 0.5:
                eh['id'] = r.choice(['uint8', 'uint16'])
            if clk and r.random() < 0.6:
                eh['timestamp'] = copy.deepcopy(clk_int)
            if eh:
                s['event-header-type'] = OD([('class', 'struct'), ('fields', eh)])
            if r.random() < 0.4:
                s['event-context-type'] = self.struct_ft(aliases, 'ec', True) if r.random() < 0.85 else None
            evs = OD()
            for ei in range(nev):
                e = OD()
                if r.random() < 0.6:
                    e['log-level'] = r.choice([0, 5, 14] + ll_names + [None])
                if r.random() < 0.4:
                    e['context-type'] = self.struct_ft(aliases, 'c', True) if r.random() < 0.85 else None
                e['payload-type'] = self.struct_ft(aliases, 'p', True)
                evs['ev%d' % ei] = e
            s['events'] = evs
            streams['st%d' % si] = s
        meta['streams'] = streams
        root = OD([('version', self.seen('version', r.choice(['2.0', '2.1', '2.2'])))])
        if r.random() < 0.5:
            root['prefix'] = r.choice(['barectf_', 'my_', 'x'])
        if r.random() < 0.4:
            o = OD()
            self.put_opt(o, 'gen-prefix-def', lambda: r.random() < 0.5, 0.7, 0.0)
            self.put_opt(o, 'gen-default-stream-def', lambda: r.random() < 0.5, 0.7, 0.0)
            root['options'] = o
        root['metadata'] = meta
        return root
