"""C17: contexts are independent.  Proof: Props/C17.v (no writable static in the regenerated
declarations; product model: frame + interleaving theorems).
Validation on the real code (named in the claim, not a proof):
  * nm of objects compiled from random configurations: no symbol in .data / .bss / common;
  * one context per thread (same and different data stream types), run sequentially and then
    concurrently under ThreadSanitizer: every thread's byte stream equals its sequential one."""
import os
import subprocess

import bt
import layout_gen as lg
import tracer_common as tc
from common import prepare

HEAD = r'''
#include <stdint.h>
#include <stdio.h>
#include <stdlib.h>
#include <string.h>
#include <pthread.h>
#include "barectf.h"

struct tctx {
	union { %(ctx_union)s } c;
	uint8_t *buf; uint32_t bufsz;
	uint8_t *out; size_t outlen, outcap;
	unsigned long long clk;
	int stream;
};
static void emit(struct tctx *t)
{
	if (t->outlen + t->bufsz > t->outcap) { t->outcap = 2 * t->outcap + t->bufsz; t->out = (uint8_t *) realloc(t->out, t->outcap); }
	memcpy(t->out + t->outlen, t->buf, t->bufsz); t->outlen += t->bufsz;
}
static int full_cb(void *d) { (void) d; return 0; }
'''


def stream_code(cfg, s, si, calls, pcargs, ca, prefix='barectf_'):
    erts = tc.sorted_erts(s)
    name = s['name']
    pc_user = {'minal': 8, 'members': list(s['pc_extra'])}
    pcs = ''.join(', ' + a for a in lg.c_call_args(ca, pc_user, pcargs))
    out = []
    if s['clock']:
        ct = s['clock']['ctype']
        out.append('static %s clock_%d(void *d) { struct tctx *t = (struct tctx *) d; return (%s) ++t->clk; }' % (ct, si, ct))
    out.append('static void open_%d(void *d) { struct tctx *t = (struct tctx *) d; %s%s_open_packet(&t->c.s%d%s); }' % (si, prefix, name, si, pcs))
    out.append('static void close_%d(void *d) { struct tctx *t = (struct tctx *) d; %s%s_close_packet(&t->c.s%d); emit(t); }' % (si, prefix, name, si))
    body = ['static void work_%d(struct tctx *t)' % si, '{', '\tstruct %splatform_callbacks cbs;' % prefix,
            '\tmemset(&cbs, 0, sizeof(cbs));']
    for s2 in cfg['streams']:
        if s2['clock']:
            # every clock callback of the trace type must be set; only this stream's is used
            body.append('\tcbs.%s_clock_get_value = %s;' % (s2['clock']['name'], 'clock_%d' % si if s2 is s else '0'))
    body += ['\tcbs.is_backend_full = full_cb; cbs.open_packet = open_%d; cbs.close_packet = close_%d;' % (si, si),
             '\t%sinit(&t->c.s%d, t->buf, t->bufsz, cbs, t);' % (prefix, si), '\topen_%d(t);' % si]
    for c in calls:
        e = erts[c[1]]
        args = []
        for st, vals in zip(tc.scopes(cfg, s, e), c[2]):
            args += lg.c_call_args(ca, st, vals)
        body.append('\t%s%s_trace_%s(&t->c.s%d%s);' % (prefix, name, e['name'], si, ''.join(', ' + a for a in args)))
    body += ['\tif (%spacket_is_open(&t->c.s%d) && !%spacket_is_empty(&t->c.s%d)) close_%d(t);' % (prefix, si, prefix, si, si), '}']
    return '\n'.join(out + body)


MAIN = r'''
static void run(struct tctx *t) { switch (t->stream) { %(dispatch)s } }
static void *thr(void *a) { run((struct tctx *) a); return NULL; }
static void setup(struct tctx *t, int stream, uint32_t bufsz)
{
	memset(t, 0, sizeof(*t)); memset(&t->c, 0xA5, sizeof(t->c)); /* context memory is not zero-filled */ t->stream = stream; t->bufsz = bufsz; t->buf = (uint8_t *) calloc(1, bufsz + 64); /* slack: the known S9 overflow (<= 16 bytes) must not land in another thread's block */
}
int main(void)
{
	enum { NT = %(nt)d };
	static struct tctx seq[NT], par[NT];
	pthread_t th[NT];
	static const int streams[NT] = { %(streams)s };
	static const uint32_t sizes[NT] = { %(sizes)s };
	int i, bad = 0;
	for (i = 0; i < NT; i++) { setup(&seq[i], streams[i], sizes[i]); run(&seq[i]); }
	for (i = 0; i < NT; i++) setup(&par[i], streams[i], sizes[i]);
	for (i = 0; i < NT; i++) pthread_create(&th[i], NULL, thr, &par[i]);
	for (i = 0; i < NT; i++) pthread_join(th[i], NULL);
	for (i = 0; i < NT; i++) {
		if (seq[i].outlen != par[i].outlen || memcmp(seq[i].out, par[i].out, seq[i].outlen)) { bad++; printf("DIFF thread %%d\n", i); }
		printf("thread %%d stream %%d bytes %%lu\n", i, streams[i], (unsigned long) seq[i].outlen);
	}
	printf(bad ? "FAIL\n" : "OK\n");
	return bad ? 1 : 0;
}
'''


def run(ctx):
    prepare(ctx)
    ncfg = ctx.pick(8, 60)
    nt = ctx.pick(4, 8)
    nm_checked = threads_run = 0
    samples = []
    for ci in range(ncfg):
        rng = ctx.rng
        cfg = lg.rand_cfg(rng, nstreams=rng.choice([1, 2, 2]))
        d = os.path.join(ctx.scratch, 'c17_%d' % ci)
        files = bt.generate(lg.to_barectf(cfg), d)
        replay = {'config': {k: (list(v) if isinstance(v, bytes) else v) for k, v in cfg.items()}}
        # ---- nm: no writable object with static storage duration
        rc, out = bt.cc(['-ansi', '-O0', '-c', 'barectf.c', '-o', 'plain.o'], cwd=d)   # -O0: an optimiser can delete a static scratch variable
        if rc != 0:
            ctx.corr_broken.append('generated source does not compile: ' + out[-300:])
            continue
        rc, out = tc_sh(['nm', 'plain.o'], d)
        nm_checked += 1
        bad = [l for l in out.splitlines() if len(l.split()) >= 2 and l.split()[-2] in ('b', 'B', 'd', 'D', 'C', 'c', 's', 'S', 'g', 'G')]
        if bad:
            ctx.violation('the generated tracer has writable static storage: %s' % '; '.join(bad[:4]), dict(replay, nm=out[-1500:]))
            continue
        # ---- threads
        ca = lg.CArgs()
        codes, dispatch, streams, sizes = [], [], [], []
        for si, s in enumerate(cfg['streams']):
            # one big packet per thread: a tracer-initiated packet switch can hit the known findings S9/S18
            # (heap overflow), which would make threads write into each other's heap blocks
            h = tc.rand_history(rng, cfg, s, rng.choice([20, 60]), 60000, p_full=0.0, p_other=0.0)
            calls = [c for c in h['calls'] if c[0] == 'trace']
            # only records that fit an empty packet, so that the run does not depend on discards
            codes.append(stream_code(cfg, s, si, calls, h['pcargs'], ca))
            dispatch.append('case %d: work_%d(t); break;' % (si, si))
            h['_si'] = si
            cfg['streams'][si]['_buf'] = h['buf']
        for t in range(nt):
            si = t % len(cfg['streams'])
            streams.append(str(si))
            sizes.append(str(cfg['streams'][si]['_buf']))
        union = ' '.join('struct barectf_%s_ctx s%d;' % (s['name'], si) for si, s in enumerate(cfg['streams']))
        src = (HEAD % {'ctx_union': union}) + '\n'.join(ca.decls) + '\n' + '\n'.join(codes) + \
            (MAIN % {'dispatch': ' '.join(dispatch), 'nt': nt, 'streams': ', '.join(streams), 'sizes': ', '.join(sizes)})
        with open(os.path.join(d, 'mt.c'), 'w') as f:
            f.write(src)
        rc, out = bt.cc(['-O0', '-g', '-w', '-fsanitize=thread', 'barectf.c', 'mt.c', '-o', 'mt', '-lpthread'], cwd=d, compiler='clang')
        if rc != 0:
            ctx.corr_broken.append('multi-thread driver does not build: ' + out[-400:])
            continue
        try:
            p = subprocess.run([os.path.join(d, 'mt')], capture_output=True, text=True, timeout=120)
        except subprocess.TimeoutExpired:
            ctx.corr_broken.append('multi-thread driver timed out')
            continue
        threads_run += nt
        if 'ThreadSanitizer' in p.stderr:
            ctx.violation('ThreadSanitizer reports a data race between contexts traced from different threads',
                          dict(replay, tsan=p.stderr[:2500]))
        elif p.returncode != 0 or 'OK' not in p.stdout:
            if 'AddressSanitizer' in p.stderr or p.returncode < 0:
                ctx.notes.append('multi-thread run aborted (rc %d): %s' % (p.returncode, p.stderr[-200:]))
            else:
                ctx.violation('a context traced concurrently with others produced a different stream than alone: %s' % p.stdout[-300:],
                              dict(replay, stdout=p.stdout[-1500:]))
        if len(samples) < 3:
            samples.append({'streams': [s['name'] for s in cfg['streams']], 'threads': nt, 'stdout': p.stdout[-300:]})
    ctx.cov.update({
        'evaluations': nm_checked + threads_run,
        'distinct_nontrivial': nm_checked,
        'rule': 'random configurations (1-2 data stream types): nm of the compiled generated source (no writable static) and a %d-thread run, one context per thread, sequential vs concurrent byte streams under ThreadSanitizer (clang); distinct = configurations' % nt,
        'nm_objects_checked': nm_checked, 'thread_contexts_run': threads_run,
        'validated_not_proved': 'memory accesses of the compiled functions (nm, ThreadSanitizer); hardware-level races',
        'samples': samples,
    })


def tc_sh(cmd, cwd):
    from common import sh
    return sh(cmd, cwd=cwd, timeout=60)
