"""C13: generation is a deterministic function of the configuration; IDs are stable.

Proof: Props/C13.v (ids_perm / ids_rank on Front/Ids.v; render_order_free on the template plan
regenerated from Jinja2's AST of the real templates; fold_insert_perm for the Python loops).
Tie + oracle on the real code:
  * the same YAML configuration generated in FRESH processes under k PYTHONHASHSEED values and
    under permutations of the data-stream-types / event-record-types / clock-types mappings
    (2-4 streams, 2-6 event record types each, 2-3 clocks): all files byte-identical modulo the
    two date lines;
  * IDs printed in the metadata == IDs compiled into the C == Ids.assign of the Coq model
    evaluated by vm_compute (cases.v), also for barectf.config constructors called directly with
    permuted sets of adversarial names (prefixes of each other, case, digits, underscores).
uuid: auto is excluded (S16: documented to change at every load)."""
import os
import re
from concurrent.futures import ThreadPoolExecutor

import bt
from common import prepare, run_cases_v
from props import c14cfg as G


def ambiguous(doc):
    """dst/ert names whose `<dst>_<ert>` concatenations coincide (would not even compile; C14)."""
    seen = set()
    for d, dn in doc['trace']['type']['data-stream-types'].items():
        for e in dn['event-record-types']:
            k = d + '_' + e
            if k in seen:
                return True
            seen.add(k)
    return False


def ids_from_metadata(text):
    """{dst name: (id, {ert name: id})} parsed from the metadata text."""
    res = {}
    by_id = {}
    cur = None
    for m in re.finditer(r'/\* Data stream type `(\w+)` \*/\nstream \{\n(?:\tid = (\d+);\n)?|event \{\n(?:\tstream_id = (\d+);\n)?\tid = (\d+);\n\tname = "(\w+)";', text):
        if m.group(1) is not None:
            cur = m.group(1)
            sid = int(m.group(2)) if m.group(2) is not None else None
            res[cur] = (sid, {})
            by_id[sid] = cur
        else:
            sid = int(m.group(3)) if m.group(3) is not None else None
            owner = by_id.get(sid, cur)
            res[owner][1][m.group(5)] = int(m.group(4))
    return res


def ids_from_c(text, doc, prefix='barectf_'):
    res = {}
    for d, dn in doc['trace']['type']['data-stream-types'].items():
        sid = None
        m = re.search(r'\nvoid %s%s_open_packet\(.*?\n\}\n' % (re.escape(prefix), re.escape(d)), text, re.S)
        if m:
            k = re.search(r'/\* Write data stream type ID field \*/.*?\(\w+\) (\d+)\)?;', m.group(0), re.S)
            if k:
                sid = int(k.group(1))
        erts = {}
        for e in dn['event-record-types']:
            m = re.search(r'\nstatic void _serialize_er_%s_%s\(.*?\n\}\n' % (re.escape(d), re.escape(e)), text, re.S)
            if m:
                k = re.search(r'_serialize_er_header_%s\(ctx, (\d+)\);' % re.escape(d), m.group(0))
                if k:
                    erts[e] = int(k.group(1))
        res[d] = (sid, erts)
    return res


def case_twins(d, rng):
    """Rename one clock type and one event record type per stream to the case-swapped name of a sibling: names that
    differ only by letter case are distinct identifiers everywhere (YAML, C, TSDL) but collide under any
    case-insensitive ordering, which would leave their relative order to the hash-seed dependent set iteration."""
    tt = d['trace']['type']
    clocks = tt.get('clock-types') or {}
    names = sorted(clocks)
    if len(names) >= 2:
        a, b = rng.sample(names, 2)
        nb = a.swapcase()
        if nb != a and nb not in clocks:
            tt['clock-types'] = {(nb if k == b else k): v for k, v in clocks.items()}
            for dn in tt['data-stream-types'].values():
                if dn.get('$default-clock-type-name') == b:
                    dn['$default-clock-type-name'] = nb
    for dn in tt['data-stream-types'].values():
        erts = dn['event-record-types']
        names = sorted(erts)
        if len(names) >= 2 and rng.random() < 0.5:
            a, b = rng.sample(names, 2)
            nb = a.swapcase()
            if nb != a and nb not in erts:
                dn['event-record-types'] = {(nb if k == b else k): v for k, v in erts.items()}
    return d


def coq_str(s):
    return '[' + ';'.join(str(ord(c)) for c in s) + ']'


NAME_POOL = ['a', 'A', 'a_', 'a0', 'aa', 'ab', 'a_b', 'aB', 'b', 'B', '_', '_a', '__a', 'z', 'Z', 'z0', 'z_', 'a1', 'a10', 'a2',
             'default', 'Default', 'e', 'e_', 'e0', 'E', 'é', 'ß', 'á', '\U0001F600', 'zz', 'z' * 9, '', '0', '9a', '~', 'a~', 'a ']


def run(ctx):
    prepare(ctx)
    rng = ctx.rng
    nseeds = ctx.pick(8, 64)
    nperm = ctx.pick(6, 24)
    ncfg = ctx.pick(8, 24)
    # ---- corpus first
    docs = []
    corpus = os.path.join(os.path.dirname(os.path.dirname(os.path.dirname(os.path.abspath(__file__)))), 'corpus', 'C13')
    if os.path.isdir(corpus):
        import yaml
        for f in sorted(os.listdir(corpus)):
            if f.endswith('.yaml'):
                with open(os.path.join(corpus, f), encoding='utf-8') as fh:
                    docs.append(yaml.safe_load(fh.read().split('\n', 2)[2]))
    rdocs = G.replay_docs(ctx)
    if rdocs:
        docs, ncfg = rdocs, len(rdocs)
    while len(docs) < ncfg:
        d = G.gen_config(rng, n_dst=(2, 4), n_ert=(2, 6), n_clk=(2, 3))
        if len(docs) % 2 == 1:
            d = case_twins(d, rng)
        if ambiguous(d):
            continue
        # every stream gets a clock so that the clock-types set is really iterated
        clocks = sorted(d['trace']['type'].get('clock-types', {}))
        for i, dn in enumerate(d['trace']['type']['data-stream-types'].values()):
            if clocks and '$default-clock-type-name' not in dn and rng.random() < 0.7:
                dn['$default-clock-type-name'] = clocks[i % len(clocks)]
        docs.append(d)
    jobs = []   # (cfg index, kind, variant index, yaml path, outdir, hashseed)
    seeds = [0, 1, 2, 3] + [rng.randrange(1, 2 ** 32 - 1) for _ in range(nseeds - 4)]
    for ci, doc in enumerate(docs):
        base = os.path.join(ctx.scratch, 'c%d' % ci)
        os.makedirs(base, exist_ok=True)
        p = os.path.join(base, 'cfg.yaml')
        with open(p, 'w', encoding='utf-8') as f:
            f.write(G.yaml_text(doc))
        for si, s in enumerate(seeds):
            jobs.append((ci, 'seed', si, p, os.path.join(base, 's%d' % si), s))
        for pi in range(nperm):
            pd = G.permuted(doc, rng)
            pp = os.path.join(base, 'perm%d.yaml' % pi)
            with open(pp, 'w', encoding='utf-8') as f:
                f.write(G.yaml_text(pd))
            jobs.append((ci, 'perm', pi, pp, os.path.join(base, 'p%d' % pi), rng.randrange(0, 2 ** 32 - 1)))

    def do(job):
        ci, kind, vi, path, out, seed = job
        return job, G.generate_subprocess(path, out, hashseed=seed)

    results = {}
    with ThreadPoolExecutor(max_workers=14) as ex:
        for job, (rc, out, files) in ex.map(do, jobs):
            results[job[:3]] = (rc, out, files, job)
    nviol = 0
    compared = 0
    distinct_orders = 0
    id_cases = []
    samples = []
    for ci, doc in enumerate(docs):
        ref_rc, ref_out, ref_files, ref_job = results[(ci, 'seed', 0)]
        if ref_rc != 0:
            ctx.corr_broken.append('C13 generator produced a configuration barectf rejects: %s' % ref_out[-300:])
            ctx.notes.append(G.yaml_text(doc)[:1500])
            continue
        ref = {n: G.strip_date(n, t) for n, t in ref_files.items()}
        for key, (rc, out, files, job) in sorted(results.items()):
            if key[0] != ci or key == (ci, 'seed', 0):
                continue
            compared += 1
            with open(job[3], encoding='utf-8') as fh:
                ytxt = fh.read()
            if rc != 0:
                nviol += 1
                if nviol <= 3:
                    ctx.violation('same configuration accepted in one process and rejected in another (%s %d): %s' % (key[1], key[2], out[-200:]),
                                  {'yaml': ytxt, 'hashseed': job[5], 'kind': key[1], 'error': out[-1500:],
                                   'reference_yaml': G.yaml_text(doc), 'reference_hashseed': seeds[0]})
                continue
            cur = {n: G.strip_date(n, t) for n, t in files.items()}
            if cur != ref:
                nviol += 1
                if nviol <= 3:
                    diff = [n for n in sorted(set(cur) | set(ref)) if cur.get(n) != ref.get(n)]
                    first = ''
                    if diff and diff[0] in cur and diff[0] in ref:
                        a, b = ref[diff[0]].splitlines(), cur[diff[0]].splitlines()
                        for i in range(min(len(a), len(b))):
                            if a[i] != b[i]:
                                first = 'line %d: %r vs %r' % (i + 1, a[i][:80], b[i][:80])
                                break
                    ctx.violation('generated files differ between two generations of the same configuration (%s %d; files %s; %s)' % (key[1], key[2], diff, first),
                                  {'yaml': ytxt, 'hashseed': job[5], 'kind': key[1], 'reference_yaml': G.yaml_text(doc),
                                   'reference_hashseed': seeds[0], 'differing_files': diff, 'first_difference': first})
        # IDs: metadata vs C vs model
        mids = ids_from_metadata(ref_files['metadata'])
        cids = ids_from_c(ref_files['barectf.c'], doc)
        dsts = doc['trace']['type']['data-stream-types']
        feats = doc['trace']['type'].get('$features') or {}
        for d, dn in dsts.items():
            if d not in mids:
                ctx.corr_broken.append('C13 metadata parser did not find stream %s' % d)
                continue
            msid, merts = mids[d]
            csid, certs = cids.get(d, (None, {}))
            if msid is not None and csid is not None and msid != csid:
                ctx.violation('data stream type ID differs between metadata (%d) and C (%d) for %s' % (msid, csid, d),
                              {'yaml': G.yaml_text(doc), 'stream': d})
            for e in dn['event-record-types']:
                if e in certs and merts.get(e) != certs[e]:
                    ctx.violation('event record type ID differs between metadata (%s) and C (%s) for %s/%s' % (merts.get(e), certs[e], d, e),
                                  {'yaml': G.yaml_text(doc), 'stream': d, 'event': e})
            names = list(dn['event-record-types'])
            if all(n in merts for n in names):
                id_cases.append((names, [merts[n] for n in names], 'yaml ert ids of %s' % d))
        names = list(dsts)
        if all(mids.get(n, (None,))[0] is not None for n in names):
            id_cases.append((names, [mids[n][0] for n in names], 'yaml dst ids'))
        if len(samples) < 4:
            samples.append({'streams': {d: list(dn['event-record-types']) for d, dn in dsts.items()},
                            'clocks': list(doc['trace']['type'].get('clock-types', {})),
                            'metadata_ids': {d: mids.get(d) for d in dsts}})
    # ---- IDs through the constructors of barectf.config, permuted sets of adversarial names
    napi = ctx.pick(300, 3000)
    for _ in range(napi):
        k = rng.randint(1, 7)
        names = rng.sample(NAME_POOL, k)
        erts = [bt.bc.EventRecordType(n) for n in names]
        order = list(range(k))
        rng.shuffle(order)
        dst = bt.bc.DataStreamType('s', {erts[i] for i in order})
        id_cases.append((names, [e.id for e in erts], 'api ert ids'))
        dnames = rng.sample(NAME_POOL, rng.randint(1, 5))
        dsts = [bt.bc.DataStreamType(n, {bt.bc.EventRecordType('e')}) for n in dnames]
        rng.shuffle(dsts)
        bt.bc.TraceType(bt.bc.ByteOrder.LITTLE_ENDIAN, set(dsts))
        id_cases.append(([d.name for d in dsts], [d.id for d in dsts], 'api dst ids'))
    # model evaluation
    body = ['From Coq Require Import List NArith.', 'Import ListNotations.', 'From BT.Front Require Import Prefix Ids.',
            'Open Scope N_scope.', 'Definition cases : list (list str * list N) := [']
    body.append(';\n'.join('(%s, [%s])' % ('[' + ';'.join(coq_str(n) for n in names) + ']', ';'.join(str(i) for i in ids))
                           for names, ids, _ in id_cases))
    body.append('].\nEval vm_compute in (failing ids_case_ok 0%nat cases).')
    rc, out = run_cases_v('c13_ids', '\n'.join(body) + '\n', ctx.scratch)
    m = re.search(r'=\s*\[(.*?)\]\s*:\s*list nat', out, re.S)
    disagree = []
    if rc != 0 or not m:
        ctx.corr_broken.append('C13 Ids model evaluation failed: %s' % out[-300:])
    else:
        disagree = [id_cases[int(t)] for t in m.group(1).replace('\n', ' ').split(';') if t.strip()]
    for names, ids, what in disagree[:3]:
        # the model IS the specification here (rank among the names): a disagreement is a violation
        ctx.violation('IDs are not the rank of the names in ascending order (%s): names %r got %r' % (what, names, ids),
                      {'names': names, 'ids': ids, 'source': what})
    ctx.cov.update({
        'evaluations': compared + len(id_cases),
        'distinct_nontrivial': compared,
        'rule': 'generations compared with the reference generation of the same configuration (fresh process each; %d hash seeds + %d permutations of the three mappings per configuration, %d configurations with 2-4 streams, 2-6 event record types, 2-3 clocks); plus ID cases checked against the Coq model' % (len(seeds), nperm, len(docs)),
        'configurations': len(docs), 'hash_seeds': len(seeds), 'permutations_per_configuration': nperm,
        'id_cases_vs_coq_model': len(id_cases), 'id_model_disagreements': len(disagree),
        'file_diffs': nviol,
        'input_distribution': 'random YAML documents (c14cfg.gen_config): all field type classes, features on/off, environment, log levels; names drawn from a pool with common prefixes / case / digit / underscore variations; every other document has clock types and event record types whose names differ only by letter case; API names additionally non-ASCII, empty, combining characters',
        'samples': samples,
    })
