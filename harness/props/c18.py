"""C18: a barectf 2 configuration behaves exactly like its barectf 3 equivalent.

Proof: Props/C18.v (Front/V2Conv.v = model of config_parse_v2.py's conversion and of the version
detection of config_parse.py; Front/V2Sem.v = independent reading of barectf 2 / barectf 3 documents
into one abstract configuration; Front/V2Proofs.v).

On every run, on the REAL code in /repo:
 (2) ORACLE, independent of the model: from ONE random abstract configuration (c18_gen.py) a barectf 2
     document and its barectf 3 twin are printed; both are loaded with barectf.configuration_from_file
     and the generated headers, source and metadata (barectf.CodeGenerator) must be byte-identical after
     dropping the lines /repo/tests/tracing/conftest.py drops; configuration_file_major_version must
     say 2 and 3 (the CLI `barectf show-configuration-version` is sampled).
 (1) CORRESPONDENCE: the tree that the real config_parse_v2._Parser._transform_config_node produces
     (captured before the barectf 3 parser touches it) on generated, mutated and corpus (/repo/tests)
     barectf 2 documents, and the result of the real _conv_ft_node on raw field type nodes, are compared
     with Coq `conv_config` / `conv_ft` by vm_compute (sharded case files).  The effective configuration
     file of a barectf 2 document is checked to be the effective configuration file of that converted
     tree (and of the twin).
 (3) the witnesses of the `_refuted` theorems are replayed (c18_probes.py): each deviation the real code
     still shows is reported through ctx.finding with its own key.
"""
import collections
import os
import random
import re
from concurrent.futures import ProcessPoolExecutor, ThreadPoolExecutor

import bt  # noqa: F401
from common import prepare, run_cases_v, sh, THEORIES, REPO
from props import c12_trees as T
from props import c18_gen as G
from props import c18_mut as M
from props import c18_probes as P
from props import c18_work as W

OD = collections.OrderedDict
NPROC = 14


def ascii_ok(v):
    if isinstance(v, str):
        return all(32 <= ord(c) < 127 for c in v)
    if isinstance(v, list):
        return all(ascii_ok(x) for x in v)
    if isinstance(v, OD):
        return all(ascii_ok(k) and ascii_ok(x) for k, x in v.items())
    if isinstance(v, float):
        return False
    return True


def outcome_coq(r):
    if isinstance(r, str):
        return 'OCfgErr' if r == 'cfgerr' else 'OCrash'
    return '(OOk %s)' % T.to_coq(r)


def run_coq_cases(ctx, name, fn, cases, shard_bytes=600000, shard_max=400):
    """cases: [(pre tree, post tree | 'cfgerr' | 'crash:...')].  Returns (n evaluated, [failing case])."""
    rows = []
    for pre, post in cases:
        rows.append('(%s, %s)' % (T.to_coq(pre), outcome_coq(post)))
    shards, cur, size = [], [], 0
    for i, r in enumerate(rows):
        if cur and (size + len(r) > shard_bytes or len(cur) >= shard_max):
            shards.append(cur)
            cur, size = [], 0
        cur.append(i)
        size += len(r)
    if cur:
        shards.append(cur)

    def run_shard(ix):
        body = ['From Coq Require Import List String ZArith Bool.', 'Import ListNotations.',
                'From BT.Front Require Import Yaml YamlRes V2Conv.', 'Open Scope string_scope.', 'Open Scope list_scope.',
                'Definition cases : list conv_case := [', ';\n'.join(rows[i] for i in shards[ix]), '].',
                'Eval vm_compute in (failing %s 0%%nat cases).' % fn]
        return run_cases_v('%s_%d' % (name, ix), '\n'.join(body) + '\n', ctx.scratch, timeout=1200)

    n, bad = 0, []
    with ThreadPoolExecutor(max_workers=NPROC) as ex:
        for ix, (rc, out) in enumerate(ex.map(run_shard, range(len(shards)))):
            m = re.search(r'=\s*\[(.*?)\]\s*:\s*list nat', out, re.S)
            if rc != 0 or not m:
                ctx.corr_broken.append('C18 model evaluation failed on %s shard %d: %s' % (name, ix, out[-300:]))
                continue
            n += len(shards[ix])
            for t in [t for t in m.group(1).replace('\n', ' ').split(';') if t.strip()]:
                bad.append(cases[shards[ix][int(t.strip())]])
    return n, bad


def run_sem_cases(ctx, cases, fuel=40, shard_bytes=600000, shard_max=300):
    """cases: [(pre tree, real post tree)] -> list of sem_case codes (None where the evaluation failed)."""
    rows = ['(%s, %s)' % (T.to_coq(pre), T.to_coq(post)) for pre, post in cases]
    shards, cur, size = [], [], 0
    for i, r in enumerate(rows):
        if cur and (size + len(r) > shard_bytes or len(cur) >= shard_max):
            shards.append(cur)
            cur, size = [], 0
        cur.append(i)
        size += len(r)
    if cur:
        shards.append(cur)

    def run_shard(ix):
        body = ['From Coq Require Import List String ZArith Bool.', 'Import ListNotations.',
                'From BT.Front Require Import Yaml YamlRes V2Conv V2Sem.', 'Open Scope string_scope.', 'Open Scope list_scope.',
                'Definition cases : list (yaml * yaml) := [', ';\n'.join(rows[i] for i in shards[ix]), '].',
                'Eval vm_compute in (map (fun c => sem_case %d%%nat (fst c) (snd c)) cases).' % fuel]
        return run_cases_v('c18_sem_%d' % ix, '\n'.join(body) + '\n', ctx.scratch, timeout=1200)

    codes = [None] * len(cases)
    with ThreadPoolExecutor(max_workers=NPROC) as ex:
        for ix, (rc, out) in enumerate(ex.map(run_shard, range(len(shards)))):
            m = re.search(r'=\s*\[(.*?)\]\s*:\s*list nat', out, re.S)
            if rc != 0 or not m:
                ctx.corr_broken.append('C18 reading evaluation failed on shard %d: %s' % (ix, out[-300:]))
                continue
            vals = [int(t) for t in m.group(1).replace('\n', ' ').split(';') if t.strip()]
            if len(vals) != len(shards[ix]):
                ctx.corr_broken.append('C18 reading evaluation: wrong result length on shard %d' % ix)
                continue
            for i, v in zip(shards[ix], vals):
                codes[i] = v
    return codes


def corpus_files():
    """Every YAML file under /repo/tests that does not carry the barectf 3 tag."""
    out = []
    for d, _, files in os.walk(os.path.join(REPO, 'tests')):
        for f in sorted(files):
            if f.endswith('.yaml'):
                p = os.path.join(d, f)
                try:
                    with open(p) as fh:
                        txt = fh.read()
                except OSError:
                    continue
                if 'tag:barectf.org,2020/3/config' not in txt:
                    out.append(p)
    return sorted(out)


def run(ctx):
    prepare(ctx)
    rng = ctx.rng
    npairs = ctx.pick(230, 3000)
    nmut = ctx.pick(150, 1500)
    nft = ctx.pick(4000, 40000)
    neff = ctx.pick(24, 200)
    stats = collections.Counter()
    pres_counts = collections.Counter()

    # ------------------------------------------------------------------ inputs
    jobs, meta = [], {}
    trees2 = []
    for i in range(npairs):
        cfg = G.gen_abs(rng)
        t2, t3, pc = G.both(cfg, rng)
        pres_counts.update(pc)
        stats.update(G.classify(cfg))
        jid = 'pair%d' % i
        meta[jid] = {'kind': 'pair', 'cfg': cfg}
        jobs.append({'id': jid, 'v2': G.yaml_text(t2, False), 'v3': G.yaml_text(t3, True), 'effective': i < neff})
        trees2.append(t2)
    mut_stats = collections.Counter()
    i = 0
    while i < nmut:
        src = rng.choice(trees2)
        if '$include' in src['metadata'] and rng.random() < 0.5:
            continue
        r = M.mutate(src, rng)
        if r is None:
            continue
        name, t = r
        for _ in range(rng.choice([0, 0, 1])):
            r2 = M.mutate(t, rng)
            if r2 is not None:
                name, t = name + '+' + r2[0], r2[1]
        jid = 'mut%d' % i
        meta[jid] = {'kind': 'mut', 'op': name}
        jobs.append({'id': jid, 'v2': G.yaml_text(t, False), 'v3': None})
        mut_stats[name.split('+')[0]] += 1
        i += 1
    # the non-vacuity example of Props/C18.v goes through the same machinery
    ex_tree = P.example_tree()
    meta['example'] = {'kind': 'example', 'op': 'example'}
    jobs.append({'id': 'example', 'v2': G.yaml_text(ex_tree, False), 'v3': None})
    files = corpus_files()

    # raw field type nodes, in chunks
    ftrng = random.Random(rng.getrandbits(64))
    ft_nodes = [M.raw_ft(ftrng) for _ in range(nft)]
    chunks = [ft_nodes[i:i + 500] for i in range(0, len(ft_nodes), 500)]

    # ------------------------------------------------------------------ the real code, in parallel
    with ProcessPoolExecutor(max_workers=NPROC) as ex:
        fut_pairs = ex.map(W.pair_job, jobs, chunksize=4)
        fut_files = ex.map(W.file_job, [{'id': 'file%d' % i, 'path': p} for i, p in enumerate(files)], chunksize=8)
        fut_ft = ex.map(W.ft_jobs, chunks)
        results = list(fut_pairs)
        file_results = list(fut_files)
        ft_results = [r for ch in fut_ft for r in ch]

    # ------------------------------------------------------------------ (2) oracle verdicts
    conv_cases = []
    nsame = nboth_rej = nviol = 0
    bytes_compared = 0
    both_rej_reasons = collections.Counter()
    ver_bad = 0
    eff_checked = eff_bad = 0
    samples = []
    crash_msgs = collections.Counter()
    crash_docs = {}
    by_id = {j['id']: j for j in jobs}
    for r in results:
        job = by_id[r['id']]
        for pre, post in r['cap']:
            conv_cases.append((pre, post, r['id']))
        if meta[r['id']]['kind'] == 'example':
            if r['v2'] != 'ok' or r['ver2'] != 2:
                ctx.corr_broken.append('the non-vacuity example of Props/C18.v is not accepted by the real barectf: %s %s' % (r['v2'], r['msg2']))
            continue
        if meta[r['id']]['kind'] == 'mut':
            stats['mutated:%s:%s' % (meta[r['id']]['op'].split('+')[0], r['v2'])] += 1
            if r['v2'] == 'crash':
                crash_msgs[meta[r['id']]['op'] + ' -> ' + (r['msg2'] or '')[:90]] += 1
                crash_docs.setdefault((r['msg2'] or '')[:60], job['v2'])
            if r['ver2'] != 2:
                ver_bad += 1
                ctx.violation('configuration_file_major_version of a barectf 2 document is %r' % (r['ver2'],), {'v2_document': job['v2']})
            continue
        if r['ver2'] != 2 or r['ver3'] != 3:
            ver_bad += 1
            ctx.violation('configuration_file_major_version says %r for the barectf 2 document and %r for the barectf 3 document' % (r['ver2'], r['ver3']),
                          {'v2_document': job['v2'], 'v3_document': job['v3']})
        if 'eff_same' in r:
            eff_checked += 1
            if r['eff_same'] is not True or r.get('eff_version') != 3:
                eff_bad += 1
                ctx.corr_broken.append('effective_configuration_file(v2 document) is not the effective file of the converted tree (%r, version %r)' % (r['eff_same'], r.get('eff_version')))
                ctx.notes.append('effective mismatch on document:\n' + job['v2'][:1500])
        if r['v2'] == 'ok' and r['v3'] == 'ok':
            bytes_compared += r['bytes']
            if not r['diff']:
                nsame += 1
                if len(samples) < 4 and nsame % 50 == 1:
                    samples.append({'v2_document': job['v2'][:1200], 'v3_document': job['v3'][:1200], 'files_identical': r['nfiles']})
            else:
                nviol += 1
                if nviol <= 3:
                    ctx.violation('a barectf 2 document and its barectf 3 twin generate different files: %s' % (r['diff'][0],),
                                  {'v2_document': job['v2'], 'v3_document': job['v3'], 'first_differences': r['diff']})
        elif r['v2'] != 'ok' and r['v3'] != 'ok':
            nboth_rej += 1
            both_rej_reasons[(r['msg2'] or '')[:80]] += 1
        else:
            nviol += 1
            if nviol <= 3:
                ctx.violation('only one of a barectf 2 document and its barectf 3 twin loads (v2: %s %s / v3: %s %s)' % (r['v2'], r['msg2'], r['v3'], r['msg3']),
                              {'v2_document': job['v2'], 'v3_document': job['v3'], 'v2_outcome': [r['v2'], r['msg2']], 'v3_outcome': [r['v3'], r['msg3']]})

    # corpus
    corpus_stats = collections.Counter()
    for r in file_results:
        corpus_stats[r['status']] += 1
        if r['ver'] != 2:
            corpus_stats['version:%s' % r['ver']] += 1
        for pre, post in r['cap']:
            conv_cases.append((pre, post, r['path']))
            corpus_stats['reached-conversion'] += 1
    # every untagged mapping document must be reported as version 2
    for r in file_results:
        if r['ver'] != 2 and not str(r['ver']).startswith('raise'):
            ctx.violation('configuration_file_major_version(%s) = %r for an untagged document' % (r['path'], r['ver']), {'path': r['path']})

    # CLI sample
    cli_n = cli_bad = 0
    pair_jobs = [j for j in jobs if j['v3'] is not None]
    for j in [pair_jobs[k] for k in sorted(rng.sample(range(len(pair_jobs)), min(ctx.pick(3, 20), len(pair_jobs))))]:
        for text, want in ((j['v2'], '2'), (j['v3'], '3')):
            path = os.path.join(ctx.scratch, 'cli_%s_%s.yaml' % (j['id'], want))
            with open(path, 'w') as f:
                f.write(text)
            rc, out = sh(['/venv/bin/barectf', 'show-configuration-version', path], timeout=120)
            cli_n += 1
            if rc != 0 or out.strip().splitlines()[-1:] != [want]:
                cli_bad += 1
                ctx.violation('`barectf show-configuration-version` prints %r (exit %d) for a barectf %s document' % (out.strip()[-100:], rc, want), {'document': text})

    # ------------------------------------------------------------------ (1) correspondence with the Coq model
    usable = [(pre, post) for pre, post, _ in conv_cases if ascii_ok(pre)]
    outcome_stats = collections.Counter('cfgerr' if p == 'cfgerr' else p if isinstance(p, str) else 'ok' for _, p in usable)
    ncoq, bad = run_coq_cases(ctx, 'c18_conv', 'conv_case_ok', usable)
    if bad:
        ctx.corr_broken.append('Coq V2Conv.conv_config disagrees with the real _transform_config_node on %d of %d captured conversions' % (len(bad), ncoq))
        ctx.notes.append('first disagreeing conversion: pre=%r real=%r' % (T.to_plain(bad[0][0]), bad[0][1] if isinstance(bad[0][1], str) else T.to_plain(bad[0][1])))
    ft_stats = collections.Counter()
    ft_cases = []
    for node, r in ft_results:
        if r == 'schema-invalid':
            ft_stats['schema-invalid'] += 1
            continue
        if r == 'mutated-input':
            ctx.violation('_conv_ft_node modified its argument', {'node': T.to_jsonable(node)})
            continue
        ft_stats['class:' + str(node.get('class'))] += 1
        ft_stats['outcome:' + (r if isinstance(r, str) else 'ok')] += 1
        ft_stats['depth:%d' % T.depth(node)] += 1
        ft_cases.append((node, r))
    nft_coq, ft_bad = run_coq_cases(ctx, 'c18_ft', 'ft_case_ok', ft_cases)
    if ft_bad:
        ctx.corr_broken.append('Coq V2Conv.conv_ft disagrees with the real _conv_ft_node on %d of %d field type nodes' % (len(ft_bad), nft_coq))
        ctx.notes.append('first disagreeing field type: node=%r real=%r' % (T.to_plain(ft_bad[0][0]), ft_bad[0][1] if isinstance(ft_bad[0][1], str) else T.to_plain(ft_bad[0][1])))

    # the independent reading (V2Sem) on the REAL converter's outputs: v3_sem(real conv(t)) = v2_sem(t)
    sem_in = [(pre, post, src) for pre, post, src in conv_cases if not isinstance(post, str) and ascii_ok(pre) and ascii_ok(post)]
    codes = run_sem_cases(ctx, [(a, b2) for a, b2, _ in sem_in])
    sem_stats = collections.Counter()
    corpus_hits = {}
    names = {0: 'v2-reading-undefined', 1: 'equal', 2: 'DIFFERENT', 3: 'v3-reading-undefined', None: 'not-evaluated'}
    sem_bad = 0
    nvalid = 0
    for (pre, post, src), code in zip(sem_in, codes):
        kind = meta[src]['kind'] if src in meta else 'corpus'
        valid = code is not None and code >= 10
        base = None if code is None else code % 10
        nvalid += valid
        sem_stats['%s:%s:%s' % (kind, 'valid_v2' if valid else 'not-valid_v2', names[base])] += 1
        if kind == 'mut' and base in (2, 3):
            sem_stats['mut:%s:%s' % (names[base], meta[src]['op'].split('+')[0])] += 1
        # the theorem C18_equiv on the REAL converter's output: valid_v2 => equal readings
        if valid and base != 1:
            sem_bad += 1
            ctx.notes.append('valid_v2 document whose real conversion reads differently (%s): %r' % (names[base], T.to_plain(pre)))
        # every generated twin-domain document must be valid_v2 (non-vacuity of the theorem on the oracle's domain)
        if kind == 'example' and code != 11:
            sem_bad += 1
            ctx.notes.append('the non-vacuity example is not valid_v2 / does not read equal on the real conversion (code %r)' % (code,))
        if kind == 'pair' and not valid:
            sem_bad += 1
            ctx.notes.append('generated twin-domain document that is not valid_v2: %r' % (T.to_plain(pre),))
        # a corpus document outside valid_v2 whose conversion reads differently is an instance of a refuted class
        if kind == 'corpus' and not valid and base in (2, 3):
            for key in P.refuted_classes(pre):
                corpus_hits.setdefault(key, []).append(src)
            if not P.refuted_classes(pre):
                sem_bad += 1
                ctx.notes.append('corpus document %s reads differently after conversion and is in no known refuted class' % src)
        if kind == 'mut' and not valid and base in (2, 3) and not P.refuted_classes(pre):
            sem_stats['mut:unexplained-difference'] += 1
            ctx.notes.append('mutated document (%s) reads differently after conversion and is in no known refuted class: %r' % (meta[src]['op'], T.to_plain(pre)))
    if sem_bad:
        ctx.corr_broken.append('C18_equiv does not hold on the real converter\'s output for %d documents (valid_v2 but different readings, or a generated document outside valid_v2)' % sem_bad)
    if sem_stats.get('mut:unexplained-difference'):
        ctx.corr_broken.append('%d mutated documents read differently after the real conversion and fall in no refuted class' % sem_stats['mut:unexplained-difference'])

    # ------------------------------------------------------------------ (3) witnesses of the refuted theorems
    W._init()

    def run_doc(text):
        return W.load_generate(text, [])
    try:
        with open(os.path.join(THEORIES, 'Front', 'V2Proofs.v')) as f:
            proofs_src = re.sub(r'\s+', ' ', f.read())
    except OSError:
        proofs_src = ''
    probes_seen = {}
    regressions = {}
    for rg in P.REGRESSIONS:
        tree, tw = rg['make']()
        text = G.yaml_text(tree, False)
        r2, r3 = run_doc(text), run_doc(tw)
        same = (r2[0] == 'ok' and r3[0] == 'ok' and not W.first_diff(r2[1], r3[1])) or \
               (r2[0] == 'cfgerr' and r3[0] == 'cfgerr' and r2[1] == r3[1])      # the same configuration error
        regressions[rg['name']] = bool(same)
        if re.sub(r'\s+', ' ', 'Definition %s : yaml := %s.' % (rg['coq'], T.to_coq(tree))) not in proofs_src:
            ctx.corr_broken.append('regression document %s of V2Proofs.v is not the document replayed by the harness' % rg['coq'])
        if not same:
            ctx.violation('regression of %s (fixed by %s): the barectf 2 document and its barectf 3 twin no longer behave the same '
                          '(v2: %s / v3: %s)' % (rg['name'], rg['fixed_by'], r2[0], r3[0]),
                          {'v2_document': text, 'v3_twin': tw, 'v2_outcome': [r2[0], r2[1] if r2[0] != 'ok' else None],
                           'v3_outcome': [r3[0], r3[1] if r3[0] != 'ok' else None],
                           'first_differences': W.first_diff(r2[1], r3[1]) if r2[0] == 'ok' and r3[0] == 'ok' else None})
    if re.sub(r'\s+', ' ', 'Definition ex_valid_doc : yaml := %s.' % T.to_coq(ex_tree)) not in proofs_src:
        ctx.corr_broken.append('ex_valid_doc of V2Proofs.v is not the example document loaded by the harness')
    for p in P.PROBES:
        tree, tw, check = p['make']()
        text = G.yaml_text(tree, False)
        shown, detail = check(run_doc, text)
        probes_seen[p['key']] = bool(shown)
        if re.sub(r'\s+', ' ', 'Definition %s : yaml := %s.' % (p['coq'], T.to_coq(tree))) not in proofs_src:
            ctx.corr_broken.append('witness %s of V2Proofs.v is not the document replayed by the harness' % p['coq'])
        if shown:
            ctx.finding(p['key'], p['what'], {'v2_document': text, 'v3_twin': tw, 'observed': detail,
                                              'documents_of_/repo/tests_in_this_class': corpus_hits.pop(p['key'], []),
                                              'smallest_repair': p['repair'], 'coq_witness': 'BT.Front.V2Proofs.' + p['coq'],
                                              'how_to_replay': 'PYTHONPATH=/repo /venv/bin/python -c "import barectf,io,sys; cfg=barectf.configuration_from_file(io.StringIO(open(sys.argv[1]).read())); print(barectf.CodeGenerator(cfg).generate_metadata_stream().contents)" doc.yaml'})
        else:
            # the real code no longer shows the deviation: the model must then have changed too (the captured
            # conversions above decide); say so
            ctx.notes.append('probe %s: deviation not shown by the real code (%r)' % (p['key'], detail))

    for key, srcs in corpus_hits.items():
        pr = [q for q in P.PROBES if q['key'] == key][0]
        ctx.finding(key, pr['what'], {'corpus_documents': srcs, 'smallest_repair': pr['repair']})
    ndist = len(set(j['v2'] for j in jobs))
    ctx.cov.update({
        'evaluations': len(results) + len(file_results) + len(ft_results) + cli_n,
        'distinct_nontrivial': ndist + len(set(T.to_coq(n) for n, _ in ft_cases if ascii_ok(n))),
        'rule': 'oracle: random abstract configuration -> barectf 2 document + barectf 3 twin, real configuration_from_file + CodeGenerator, '
                'all generated files byte-identical modulo the lines tests/tracing/conftest.py drops; versions 2 / 3 (API on every document, CLI sampled). '
                'correspondence: every real _transform_config_node run (pairs, mutated documents, /repo/tests corpus) and real _conv_ft_node on raw '
                'schema-valid field type nodes vs Coq conv_config / conv_ft (vm_compute). distinct = distinct barectf 2 documents + distinct field type nodes',
        'exhaustive': False,
        'oracle_pairs': npairs,
        'oracle_pairs_identical_output': nsame,
        'oracle_pairs_both_rejected': nboth_rej,
        'oracle_pairs_both_rejected_reasons': dict(both_rej_reasons.most_common(8)),
        'oracle_pairs_violations': nviol,
        'oracle_bytes_compared': bytes_compared,
        'version_api_checked': len(results) * 2 - nmut - 1 + len(file_results),
        'version_api_wrong': ver_bad,
        'version_cli_checked': cli_n,
        'version_cli_wrong': cli_bad,
        'effective_file_checked': eff_checked,
        'effective_file_mismatch': eff_bad,
        'conversion_cases_captured': len(conv_cases),
        'conversion_cases_in_coq': ncoq,
        'conversion_case_outcomes': dict(outcome_stats),
        'conversion_disagreements': len(bad),
        'reading_vs_real_conversion': dict(sem_stats),
        'valid_v2_documents': nvalid,
        'ft_nodes_generated': len(ft_results),
        'ft_nodes_in_coq': nft_coq,
        'ft_disagreements': len(ft_bad),
        'ft_distribution': {k: ft_stats[k] for k in sorted(ft_stats)},
        'corpus_files': len(file_results),
        'corpus_outcomes': dict(corpus_stats),
        'mutation_operators': dict(mut_stats),
        'mutated_documents_crashing': dict(crash_msgs.most_common(30)),
        'presentation': dict(pres_counts),
        'input_distribution': {k: stats[k] for k in sorted(stats)},
        'refuted_witnesses_replayed': probes_seen,
        'regression_documents_behave_like_their_twin': regressions,
        'samples': samples,
        'readings': ['v2 trace byte-order = v3 trace-byte-order', 'absent in v2 = absent in the v3 twin (S17: clock `absolute`)',
                     'v2 dynamic array = `length: dynamic` (schemas/config/2/field-type.yaml), not a member name',
                     'int byte-order / encoding properties are outside the abstract configuration (property text: same byte order as the trace)'],
    })
